module verif/gosym

go 1.24.2

require golang.org/x/tools v0.32.0

require (
	golang.org/x/mod v0.24.0 // indirect
	golang.org/x/sync v0.13.0 // indirect
)

require golang.org/x/text v0.24.0
