package driver

import (
	"bufio"
	"fmt"
	"io"
	"math/rand"
	"os"
	"os/exec"
	"strings"

	"verif/gosym/interp"
	"verif/gosym/sym"
)

// selfTest validates the trusted parts of the engine:
//  1. every Unicode define-fun (all range-restricted variants) against the real
//     unicode function at every range boundary ±1 and 4 000 random runes, decided
//     by the solver on the SMT text that the engine actually sends;
//  2. the UTF-8 encode∘decode lemma behind the rune-provenance shortcut, by
//     symbolic execution with the shortcut disabled (all valid strings ≤ 4 bytes);
//  3. string intrinsics against loop specifications + native replay of witnesses.
func selfTest() int {
	fail := 0
	if err := selfTestUnicode(); err != nil {
		fmt.Println("SELFTEST FAIL unicode:", err)
		fail++
	} else {
		fmt.Println("selftest unicode definitions: ok")
	}
	if err := selfTestTitle(); err != nil {
		fmt.Println("SELFTEST FAIL x/text Title model:", err)
		fail++
	} else {
		fmt.Println("selftest Title model (ASCII alphanumeric / letter-free words vs golang.org/x/text): ok")
	}
	cfg := Config{VerifDir: verifDirDefault(), Repo: "/repo", Workers: 16, Tier: "quick", Seed: 1}
	s, err := Open(cfg, []string{modPath + "/pkg/camelcase"})
	if err != nil {
		fmt.Println("SELFTEST FAIL load:", err)
		return 2
	}
	defer s.Close()
	for _, w := range s.workers {
		w.NoRuneProvenance = true
	}
	var reps []*CaseReport
	for n := int64(0); n <= 4; n++ {
		rep := s.Explore(Case{Pkg: modPath + "/pkg/camelcase", Func: "Verif_Self_UTF8RoundTrip", Params: []int64{n}, Reach: []string{"end"}, WitnessEvery: 7})
		rep.Print(os.Stdout, 2)
		reps = append(reps, rep)
		if len(rep.Violations) > 0 || len(rep.Inconclusive) > 0 {
			fail++
		}
	}
	for _, w := range s.workers {
		w.NoRuneProvenance = false
	}
	for n := int64(0); n <= 2; n++ {
		rep := s.Explore(Case{Pkg: modPath + "/pkg/camelcase", Func: "Verif_Self_Strings", Params: []int64{n}, Reach: []string{"end"}, WitnessEvery: 5})
		rep.Print(os.Stdout, 2)
		reps = append(reps, rep)
		if len(rep.Violations) > 0 || len(rep.Inconclusive) > 0 {
			fail++
		}
	}
	rr := s.Replay(reps)
	sum := rr.Summary()
	fmt.Printf("selftest native replay: %v\n", sum)
	if sum["witness_mismatch"].(int) > 0 || sum["violations_confirmed"].(int) > 0 || rr.Err != "" {
		fail++
	}
	if fail > 0 {
		fmt.Println("SELFTEST FAILED")
		return 1
	}
	fmt.Println("selftest: ok")
	return 0
}

func verifDirDefault() string {
	if v := os.Getenv("VERIF_ROOT"); v != "" {
		return v
	}
	return "/verif"
}

var nPoints int

func selfTestUnicode() error {
	cmd := exec.Command("z3-new", "-in", "-smt2")
	in, _ := cmd.StdinPipe()
	out, _ := cmd.StdoutPipe()
	if err := cmd.Start(); err != nil {
		return err
	}
	defer func() { in.Close(); cmd.Process.Kill(); cmd.Wait() }()
	rd := bufio.NewReader(out)
	rng := rand.New(rand.NewSource(1))
	base := []uint32{0, 0x7f, 0x80, 0xff, 0x100, 0x7ff, 0x800, 0xffff, 0x10000, 0x10ffff, 0x110000, 0xffffffff, 0x80000000, 0x17f, 0x212a, 0xdf, 0x130, 0x131}
	for i := 0; i < 300; i++ {
		base = append(base, uint32(rng.Intn(0x110000)))
	}
	// points for one function: every boundary (±1) of its own exact ranges, plus base
	pointsFor := func(changes func(a, b uint32) bool) map[uint32]bool {
		pts := map[uint32]bool{}
		for _, b := range base {
			pts[b] = true
		}
		for r := uint32(1); r <= 0x110000; r++ {
			if changes(r-1, r) {
				pts[r-1], pts[r] = true, true
				if r >= 2 {
					pts[r-2] = true
				}
				pts[r+1] = true
			}
		}
		return pts
	}
	var points map[uint32]bool
	check := func(name, def string, limit uint32, eval func(uint32) string) error {
		var list []uint32
		for p := range points {
			if p <= limit {
				list = append(list, p)
			}
		}
		nPoints += len(list)
		for len(list) > 0 {
			chunk := list[:min(len(list), 400)]
			list = list[len(chunk):]
			var sb strings.Builder
			sb.WriteString("(push 1)\n")
			sb.WriteString(def + "\n")
			sb.WriteString("(assert (not (and true")
			for _, p := range chunk {
				fmt.Fprintf(&sb, " (= (%s #x%08x) %s)", name, p, eval(p))
			}
			sb.WriteString(")))\n(check-sat)\n(pop 1)\n")
			if _, err := io.WriteString(in, sb.String()); err != nil {
				return err
			}
			line, err := rd.ReadString('\n')
			if err != nil {
				return err
			}
			if strings.TrimSpace(line) != "unsat" {
				return fmt.Errorf("%s: solver said %q (definition disagrees with the real function)", name, strings.TrimSpace(line))
			}
		}
		return nil
	}
	for goName, f := range interp.UnicodePreds {
		f := f
		points = pointsFor(func(a, b uint32) bool { return f(rune(int32(a))) != f(rune(int32(b))) })
		for _, v := range interp.VariantLimits() {
			name, def := interp.UnicodeDef(goName, v.Suffix)
			f := f
			if err := check(name, def, v.Limit, func(p uint32) string {
				if f(rune(int32(p))) {
					return "true"
				}
				return "false"
			}); err != nil {
				return err
			}
		}
	}
	for goName, f := range interp.UnicodeMaps {
		f := f
		points = pointsFor(func(a, b uint32) bool { return f(rune(int32(a)))-rune(int32(a)) != f(rune(int32(b)))-rune(int32(b)) })
		for _, v := range interp.VariantLimits() {
			name, def := interp.UnicodeDef(goName, v.Suffix)
			f := f
			if err := check(name, def, v.Limit, func(p uint32) string {
				return fmt.Sprintf("#x%08x", uint32(f(rune(int32(p)))))
			}); err != nil {
				return err
			}
		}
	}
	return nil
}

// selfTestTitle compares the engine's exact model of cases.Title(language.Und)
// on ASCII alphanumeric words (and the identity on letter-free ASCII words)
// with the real x/text function: all words of length 1..4 over a
// representative alphabet (13^4 = 28 561 words of length 4).
func selfTestTitle() error {
	ctx := sym.NewCtx()
	alnum := []byte("azAZmM09b5Qq7")
	other := []byte("_-. :'/+")
	check := func(word []byte, model bool) error {
		want := interp.TitleNative(string(word))
		got := string(word)
		if model {
			in := make([]*sym.Term, len(word))
			for i, b := range word {
				in[i] = ctx.BV(uint64(b), 8)
			}
			out := interp.StrBytes(interp.TitleAlnumModel(ctx, in))
			gb := make([]byte, len(out))
			for i, t := range out {
				if !t.IsConst() {
					return fmt.Errorf("model not constant on concrete input %q", word)
				}
				gb[i] = byte(t.Val)
			}
			got = string(gb)
		}
		if got != want {
			return fmt.Errorf("Title(%q): model %q, x/text %q", word, got, want)
		}
		return nil
	}
	var rec func(prefix []byte, alphabet []byte, n int, model bool) error
	rec = func(prefix []byte, alphabet []byte, n int, model bool) error {
		if len(prefix) > 0 {
			if err := check(prefix, model); err != nil {
				return err
			}
		}
		if len(prefix) == n {
			return nil
		}
		for _, b := range alphabet {
			if err := rec(append(append([]byte(nil), prefix...), b), alphabet, n, model); err != nil {
				return err
			}
		}
		return nil
	}
	if err := rec(nil, alnum, 4, true); err != nil {
		return err
	}
	// letter-free words (digits and punctuation): identity
	return rec(nil, append(append([]byte(nil), other...), '0', '7'), 4, false)
}
