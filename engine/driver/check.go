package driver

import (
	"encoding/json"
	"fmt"
	"os"
	"path/filepath"
	"sort"
	"strings"
	"time"

	"verif/gosym/interp"
)

type SpecCase struct {
	Pkg      string    `json:"pkg"`
	Func     string    `json:"func"`
	Quick    [][]int64 `json:"quick"`
	Thorough [][]int64 `json:"thorough"`
	// cross products of [lo,hi] per parameter, appended to the explicit lists
	QuickRanges    [][][2]int64 `json:"quick_ranges,omitempty"`
	ThoroughRanges [][][2]int64 `json:"thorough_ranges,omitempty"`
	Reach          []string     `json:"reach"`
	MaxPaths       int          `json:"max_paths,omitempty"`
	MaxSteps       int          `json:"max_steps,omitempty"`
	MaxMapPerm     int          `json:"max_map_perm,omitempty"`
	ByteEnum       bool         `json:"byte_enum,omitempty"`
	OrderPolicies  int          `json:"order_policies,omitempty"`
	WitnessEvery   int          `json:"witness_every,omitempty"`
	MaxWitnesses   int          `json:"max_witnesses,omitempty"`
	MaxSecs        int          `json:"max_secs,omitempty"`
	What           string       `json:"what,omitempty"`
}

type SpecProp struct {
	Packages    []string          `json:"packages"`
	Cases       []SpecCase        `json:"cases"`
	Bounds      map[string]string `json:"bounds"`
	Outside     []string          `json:"outside"`
	Assumptions []string          `json:"assumptions"`
	// cap on natively replayed path witnesses for the whole check (default 400 quick / 2000 thorough)
	MaxWitnesses int `json:"max_witnesses,omitempty"`
}

type Spec struct {
	Properties map[string]*SpecProp `json:"properties"`
}

type KnownFinding struct {
	Property  string `json:"property"`
	ID        string `json:"id,omitempty"`
	Status    string `json:"status"` // open | fixed
	WhatFails string `json:"what_fails"`
	Commit    string `json:"commit,omitempty"`
	Line      string `json:"line,omitempty"`
}

type KnownFindings struct {
	Findings []KnownFinding `json:"findings"`
}

func loadJSON(path string, v any) error {
	b, err := os.ReadFile(path)
	if err != nil {
		return err
	}
	return json.Unmarshal(b, v)
}

const (
	exitOK           = 0
	exitViolation    = 1
	exitInconclusive = 2
)

// Check runs every case of a property, replays, reconciles known findings and
// writes the evidence file. Exit codes: 0 held, 1 violation, 2 inconclusive.
func Check(cfg Config, prop string) int {
	t0 := time.Now()
	var spec Spec
	if err := loadJSON(filepath.Join(cfg.VerifDir, "harness", "spec.json"), &spec); err != nil {
		fmt.Println("INCONCLUSIVE: cannot read spec:", err)
		return exitInconclusive
	}
	sp := spec.Properties[prop]
	if sp == nil {
		fmt.Printf("INCONCLUSIVE: property %s has no spec\n", prop)
		return exitInconclusive
	}
	var kf KnownFindings
	_ = loadJSON(filepath.Join(cfg.VerifDir, "known_findings.json"), &kf)
	openKF := map[string]KnownFinding{}
	for _, f := range kf.Findings {
		if f.Property == prop && f.Status == "open" && f.ID != "" {
			openKF[f.ID] = f
		}
	}

	if cfg.Tier == "thorough" && cfg.XCheck == "" && os.Getenv("GOSYM_NO_XCHECK") == "" {
		cfg.XCheck = "cvc5"
	}
	s, err := Open(cfg, sp.Packages)
	if err != nil {
		fmt.Println("INCONCLUSIVE: cannot load /repo with the harness overlay:", err)
		writeEvidence(cfg, prop, sp, nil, nil, nil, time.Since(t0).Seconds(), 0, []string{"load failed: " + err.Error()})
		return exitInconclusive
	}
	defer s.Close()
	fmt.Printf("%s tier=%s: loaded /repo working tree + %d harness files, %d workers, %.1fs\n", prop, cfg.Tier, len(s.overlay), len(s.workers), s.LoadSecs)

	var reports []*CaseReport
	var inconcl []string
	skippedSeen := map[string]bool{}
	var skipped []string
	// Fail fast: as soon as a case yields a counterexample that reproduces natively
	// (and is not an open known finding) the remaining cases are not explored - the
	// verdict is VIOLATION either way, and a broken tree can make later cases
	// explode. GOSYM_NO_FAILFAST=1 explores everything.
	failFast := os.Getenv("GOSYM_NO_FAILFAST") == ""
	stoppedEarly := false
cases:
	for _, sc := range sp.Cases {
		params := append([][]int64(nil), sc.Quick...)
		for _, r := range sc.QuickRanges {
			params = append(params, cross(r)...)
		}
		if cfg.Tier == "thorough" && (sc.Thorough != nil || sc.ThoroughRanges != nil) {
			params = append([][]int64(nil), sc.Thorough...)
			for _, r := range sc.ThoroughRanges {
				params = append(params, cross(r)...)
			}
		}
		for _, ps := range params {
			c := Case{Pkg: sc.Pkg, Func: sc.Func, Params: ps, MaxPaths: sc.MaxPaths, MaxSteps: sc.MaxSteps, MaxMapPerm: sc.MaxMapPerm, ByteEnum: sc.ByteEnum, OrderPolicies: sc.OrderPolicies, Reach: sc.Reach, WitnessEvery: sc.WitnessEvery, MaxWitnesses: sc.MaxWitnesses, MaxSecs: sc.MaxSecs}
			if c.MaxSecs == 0 {
				// default wall-clock budget per case: a tree under check can make a case explode
				c.MaxSecs = 1200
				if cfg.Tier == "thorough" {
					c.MaxSecs = 7200
				}
			}
			explicitEvery := c.WitnessEvery != 0
			if c.WitnessEvery == 0 {
				if cfg.Tier == "thorough" {
					c.WitnessEvery = 97
				} else {
					c.WitnessEvery = 29
				}
			}
			// the seed shifts which paths are sampled as witnesses
			if !explicitEvery {
				c.WitnessEvery += int(cfg.Seed % 7)
			}
			rep := s.Explore(c)
			if rep.Skipped != "" {
				if !skippedSeen[rep.Skipped] {
					skippedSeen[rep.Skipped] = true
					fmt.Printf("NOTE: %s\n", rep.Skipped)
				}
				skipped = append(skipped, c.String())
				continue
			}
			reports = append(reports, rep)
			fmt.Printf("  %-44s paths=%-7d %v steps=%d %.1fs\n", c.String(), rep.TotalPaths, rep.Paths, rep.Steps, rep.Wall)
			for _, m := range rep.Inconclusive {
				inconcl = append(inconcl, c.String()+": "+m)
			}
			if failFast && len(rep.Violations) > 0 {
				only := *rep
				only.Witnesses = nil
				early := s.ReplayCases(s.replayCases([]*CaseReport{&only}))
				for _, rc := range early.Cases {
					if _, known := openKF[rc.KF]; rc.Kind != "witness" && rc.Confirmed && !(known && rc.KF != "") {
						stoppedEarly = true
					}
				}
				if stoppedEarly {
					fmt.Printf("NOTE: a counterexample of %s reproduced natively; the remaining cases are not explored (GOSYM_NO_FAILFAST=1 explores everything)\n", c.String())
					break cases
				}
			}
		}
	}
	evidenceStoppedEarly = stoppedEarly

	// native replay of every counterexample and of the sampled path witnesses
	cases := s.replayCases(reports)
	maxW := 400
	if cfg.Tier == "thorough" {
		maxW = 2000
	}
	if sp.MaxWitnesses > 0 {
		maxW = sp.MaxWitnesses
	}
	cases = capWitnesses(cases, maxW)
	rr := s.ReplayCases(cases)
	if rr.Err != "" {
		inconcl = append(inconcl, "native replay: "+rr.Err)
	}
	sum := rr.Summary()
	fmt.Printf("  native replay: %d witnesses confirmed, %d mismatched; %d counterexamples confirmed, %d not reproduced (%.1fs)\n",
		sum["witness_confirmed"], sum["witness_mismatch"], sum["violations_confirmed"], sum["violations_not_reproduced"], rr.Wall)

	exit := exitOK
	nviol := 0
	kfPrinted := map[string]bool{}
	replayDir := filepath.Join(cfg.VerifDir, "replays", prop)
	for _, c := range rr.Cases {
		if c.Kind == "witness" {
			if !c.Confirmed && c.Detail == "no native result" {
				// the harness is not registered for native replay (or the native run died): never silent
				inconcl = append(inconcl, fmt.Sprintf("ENGINE-MISMATCH: witness of %s %v: no native result (harness not registered in the package's replay table?)", c.Harness, c.Params))
			} else if !c.Confirmed && !c.MapOrder {
				inconcl = append(inconcl, fmt.Sprintf("ENGINE-MISMATCH: witness of %s %v inputs=%s: engine %v vs native %s %s", c.Harness, c.Params, fmtInputs(c.Inputs), c.Observes, c.Native, c.Detail))
			}
			continue
		}
		if !c.Confirmed {
			inconcl = append(inconcl, fmt.Sprintf("ENGINE-MISMATCH: counterexample of %s %v (%s %q) inputs=%s did not reproduce natively: %s", c.Harness, c.Params, c.Kind, c.Msg, fmtInputs(c.Inputs), c.Native))
			continue
		}
		if f, ok := openKF[c.KF]; ok && c.KF != "" {
			if !kfPrinted[c.KF] {
				kfPrinted[c.KF] = true
				fmt.Printf("KNOWN-FINDING: property=%s %s (e.g. %s %v inputs=%s → %s)\n", prop, f.WhatFails, c.Harness, c.Params, fmtInputs(c.Inputs), c.Native)
			}
			continue
		}
		// a replayed violation that no open known finding covers
		nviol++
		if nviol <= 10 {
			os.MkdirAll(replayDir, 0o755)
			p := filepath.Join(replayDir, fmt.Sprintf("%s-%d.json", c.Harness, nviol))
			b, _ := json.MarshalIndent(c, "", " ")
			os.WriteFile(p, b, 0o644)
			fmt.Printf("VIOLATION property=%s replay=%s\n", prop, p)
			fmt.Printf("  %s %v: %s %q inputs=%s native=%q\n", c.Harness, c.Params, c.Kind, c.Msg, fmtInputs(c.Inputs), c.Native)
		}
		exit = exitViolation
	}
	for _, m := range inconcl {
		fmt.Println("INCONCLUSIVE:", m)
	}
	if exit == exitOK && len(inconcl) > 0 {
		exit = exitInconclusive
	}
	wall := time.Since(t0).Seconds()
	evidenceSkipped = skipped
	writeEvidence(cfg, prop, sp, s, reports, rr, wall, nviol, inconcl)
	switch exit {
	case exitOK:
		fmt.Printf("%s: held on everything explored (%.1fs)\n", prop, wall)
	case exitInconclusive:
		fmt.Printf("%s: INCONCLUSIVE (%.1fs)\n", prop, wall)
	}
	return exit
}

func cross(r [][2]int64) [][]int64 {
	out := [][]int64{{}}
	for _, d := range r {
		var next [][]int64
		for _, p := range out {
			for v := d[0]; v <= d[1]; v++ {
				next = append(next, append(append([]int64(nil), p...), v))
			}
		}
		out = next
	}
	return out
}

func capWitnesses(cases []*ReplayCase, maxW int) []*ReplayCase {
	nw := 0
	for _, c := range cases {
		if c.Kind == "witness" {
			nw++
		}
	}
	if nw <= maxW {
		return cases
	}
	keepEvery := (nw + maxW - 1) / maxW
	var out []*ReplayCase
	i := 0
	for _, c := range cases {
		if c.Kind != "witness" {
			out = append(out, c)
			continue
		}
		if i%keepEvery == 0 {
			out = append(out, c)
		}
		i++
	}
	return out
}

// evidenceStoppedEarly: exploration stopped at the first natively confirmed counterexample.
var evidenceStoppedEarly bool

// evidenceSkipped: cases of optional white-box harnesses that were left out in this run.
var evidenceSkipped []string

func writeEvidence(cfg Config, prop string, sp *SpecProp, s *Session, reports []*CaseReport, rr *ReplayReport, wall float64, nviol int, inconcl []string) {
	ev := map[string]any{
		"property_id": prop,
		"tier":        cfg.Tier,
		"seed":        cfg.Seed,
		"level":       "model_checking",
		"wall_s":      wall,
		"violations":  nviol,
	}
	cov := map[string]any{}
	paths, completed := 0, 0
	outcomes := map[string]int{}
	var steps int64
	var samples []any
	var caseRows []any
	for _, r := range reports {
		paths += r.TotalPaths
		completed += r.Paths["ok"] + r.Paths["violation"]
		steps += r.Steps
		for k, v := range r.Paths {
			outcomes[k] += v
		}
		row := map[string]any{"harness": r.Case.Func, "params": r.Case.Params, "paths": r.TotalPaths, "outcomes": r.Paths, "steps": r.Steps, "wall_s": r.Wall, "reached": r.Reached}
		if len(r.ViolCount) > 0 {
			row["violations"] = r.ViolCount
		}
		caseRows = append(caseRows, row)
		for i, w := range r.Witnesses {
			if i < 2 && len(samples) < 60 {
				samples = append(samples, map[string]any{"harness": r.Case.Func, "params": r.Case.Params, "path_witness_inputs": fmtInputs(w.Inputs), "observed": w.Observes})
			}
		}
		for i, v := range r.Violations {
			if i < 2 {
				samples = append(samples, map[string]any{"harness": r.Case.Func, "params": r.Case.Params, "counterexample_inputs": fmtInputs(v.Inputs), "kind": v.Kind, "msg": v.Msg, "known_finding": v.KF})
			}
		}
	}
	if len(samples) == 0 {
		samples = append(samples, "no path completed")
	}
	cov["states"] = paths
	cov["samples"] = samples
	cov["paths_by_outcome"] = outcomes
	cov["ssa_steps"] = steps
	cov["cases"] = caseRows
	cov["exhaustive"] = len(inconcl) == 0
	cov["unwinding_complete"] = len(inconcl) == 0
	cov["inconclusive"] = inconcl
	if evidenceStoppedEarly {
		cov["stopped_at_first_confirmed_violation"] = true
	}
	if len(evidenceSkipped) > 0 {
		cov["skipped_optional_cases"] = evidenceSkipped
	}
	if sp != nil {
		cov["bounds"] = sp.Bounds[cfg.Tier]
		cov["outside_bounds"] = sp.Outside
	}
	if s != nil {
		st := s.SolverTotals()
		cov["transitions"] = st.Queries
		cov["solver"] = map[string]any{
			"solver": s.cfg.Solver + " (" + solverVersion(s.cfg.Solver) + ")", "queries": st.Queries, "answered_from_canonical_cache": st.CacheHits,
			"sat": st.Sat, "unsat": st.Unsat, "unknown": st.Unknown, "errors": st.Errors, "solver_seconds": st.SolverSec,
			"branch_feasibility_decided_by_byte_domain_enumeration": st.EnumQueries, "unsat_answers_cross_checked": st.XChecked, "cross_check_solver": s.cfg.XCheck, "cross_check_disagreements": st.XDisagree, "cross_check_unknown_or_timeout": st.XUnknown, "branch_decisions": st.Decides, "decided_syntactically": st.FastPath, "forks": st.Forks,
		}
		cov["functions_encoded"] = s.UsedByClass()
		cov["init_notes"] = s.InitErrs
		cov["load_s"] = s.LoadSecs
	} else {
		cov["transitions"] = 0
	}
	if rr != nil {
		sum := rr.Summary()
		cov["traces_validated_against_impl"] = sum["witness_confirmed"]
		cov["native_replay"] = sum
	} else {
		cov["traces_validated_against_impl"] = 0
	}
	cov["rule"] = "every feasible path of each harness case is explored; a state is one completed path (one equivalence class of inputs), a transition is one solver query"
	ev["coverage"] = cov
	if sp != nil {
		as := append([]string(nil), sp.Assumptions...)
		as = append(as, "go/ssa translation of the source; the gosym interpreter; z3; exact intrinsics (see functions_encoded.intrinsic) validated by `gosym selftest` and by native replay of path witnesses")
		ev["assumptions"] = as
	}
	os.MkdirAll(filepath.Join(cfg.VerifDir, "evidence"), 0o755)
	b, _ := json.MarshalIndent(ev, "", " ")
	os.WriteFile(filepath.Join(cfg.VerifDir, "evidence", prop+".json"), b, 0o644)
}

func solverVersion(kind string) string {
	switch kind {
	case "z3":
		return "4.8.12"
	case "z3-new":
		return "5.1.0"
	case "cvc5":
		return "1.0.x"
	}
	return "?"
}

func SelfTest() int { return selfTest() }

var _ = sort.Strings
var _ = strings.Join
var _ = interp.New
