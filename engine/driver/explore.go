package driver

import (
	"fmt"
	"io"
	"os"
	"sort"
	"strings"
	"sync"
	"time"

	"verif/gosym/interp"
)

type Case struct {
	Pkg           string   `json:"pkg"`
	Func          string   `json:"func"`
	Params        []int64  `json:"params"`
	MaxPaths      int      `json:"max_paths,omitempty"`
	MaxSteps      int      `json:"max_steps,omitempty"`
	WitnessEvery  int      `json:"witness_every,omitempty"`
	MaxWitnesses  int      `json:"max_witnesses,omitempty"`
	MaxSecs       int      `json:"max_secs,omitempty"` // wall-clock budget of the case (0 = none); exceeding it is INCONCLUSIVE
	MaxMapPerm    int      `json:"max_map_perm,omitempty"`
	ByteEnum      bool     `json:"byte_enum,omitempty"`
	OrderPolicies int      `json:"order_policies,omitempty"`
	Reach         []string `json:"reach,omitempty"`
}

type Witness struct {
	Inputs   []interp.InputVal `json:"inputs"`
	Observes []string          `json:"observes"`
	Reached  []string          `json:"reached"`
	MapOrder bool              `json:"map_order_dependent,omitempty"`
}

type CaseReport struct {
	Case         Case
	Paths        map[string]int
	TotalPaths   int
	Violations   []interp.Violation
	ViolCount    map[string]int
	Witnesses    []Witness
	Reached      map[string]int
	Inconclusive []string
	Steps        int64
	MaxPathSteps int
	Wall         float64
	Asserts      int
	Err          string
	Skipped      string
	// StoppedOnViolations: exploration of the case ended early after 64 violating paths
	StoppedOnViolations bool
}

func (c Case) String() string {
	ps := make([]string, len(c.Params))
	for i, p := range c.Params {
		ps[i] = fmt.Sprint(p)
	}
	return fmt.Sprintf("%s(%s)", c.Func, strings.Join(ps, ","))
}

func violKey(v interp.Violation) string { return v.Kind + "|" + v.Msg + "|" + v.KF }

// Explore runs the exhaustive path exploration of one case on all workers.
func (s *Session) Explore(c Case) *CaseReport {
	rep := &CaseReport{Case: c, Paths: map[string]int{}, ViolCount: map[string]int{}, Reached: map[string]int{}}
	fn, err := s.harnessFunc(c.Pkg, c.Func)
	if err != nil {
		rep.Err = err.Error()
		if len(s.DroppedOptional) > 0 && strings.Contains(err.Error(), "not found") {
			// an optional white-box harness that was left out: skipped, not inconclusive
			rep.Skipped = "optional harness left out (does not compile against the current tree): " + strings.Join(s.DroppedOptional, ", ")
			return rep
		}
		rep.Inconclusive = append(rep.Inconclusive, err.Error())
		return rep
	}
	if c.MaxPaths == 0 {
		c.MaxPaths = 2_000_000
	}
	if c.WitnessEvery == 0 {
		c.WitnessEvery = 200
	}
	if c.MaxWitnesses == 0 {
		c.MaxWitnesses = 400
	}
	t0 := time.Now()
	nviol := 0
	var mu sync.Mutex
	cond := sync.NewCond(&mu)
	stack := []interp.Work{{}}
	active := 0
	started := 0
	stop := false
	inconclSeen := map[string]bool{}
	var wg sync.WaitGroup
	for _, w := range s.workers {
		wg.Add(1)
		go func(ip *interp.Interp) {
			defer wg.Done()
			if c.MaxSteps > 0 {
				ip.MaxSteps = c.MaxSteps
			} else {
				ip.MaxSteps = 2_000_000
			}
			ip.NoByteEnum = !c.ByteEnum
			ip.MapOrderPolicies = c.OrderPolicies
			if c.MaxMapPerm > 0 {
				ip.MaxMapPerm = c.MaxMapPerm
			} else {
				ip.MaxMapPerm = 4
			}
			for {
				mu.Lock()
				for len(stack) == 0 && active > 0 && !stop {
					cond.Wait()
				}
				if stop || len(stack) == 0 {
					mu.Unlock()
					cond.Broadcast()
					return
				}
				prefix := stack[len(stack)-1]
				stack = stack[:len(stack)-1]
				active++
				no := started
				started++
				mu.Unlock()

				wantW := no < 6 || no%c.WitnessEvery == 0
				res := ip.RunPath(fn, c.Params, prefix, wantW)

				mu.Lock()
				active--
				stack = append(stack, res.Pending...)
				rep.Paths[res.Outcome]++
				rep.TotalPaths++
				rep.Steps += int64(res.Steps)
				rep.MaxPathSteps = max(rep.MaxPathSteps, res.Steps)
				for _, l := range res.Reached {
					rep.Reached[l]++
				}
				for _, m := range res.Inconcl {
					if !inconclSeen[m] {
						inconclSeen[m] = true
						rep.Inconclusive = append(rep.Inconclusive, m)
					}
				}
				switch res.Outcome {
				case "unwind", "unsupported", "inconclusive":
					m := res.Outcome + ": " + res.Msg
					if !inconclSeen[m] {
						inconclSeen[m] = true
						rep.Inconclusive = append(rep.Inconclusive, m)
					}
				}
				for _, v := range res.Violations {
					k := violKey(v)
					rep.ViolCount[k]++
					if rep.ViolCount[k] <= 3 {
						rep.Violations = append(rep.Violations, v)
					}
				}
				if len(res.Violations) > 0 {
					nviol += len(res.Violations)
					if !stop && nviol >= 64 && os.Getenv("GOSYM_NO_FAILFAST") == "" {
						// enough counterexamples to replay: do not explore a (possibly exploding) broken case to the end
						stop = true
						rep.StoppedOnViolations = true
					}
				}
				if res.HasWitness && len(rep.Witnesses) < c.MaxWitnesses {
					rep.Witnesses = append(rep.Witnesses, Witness{Inputs: res.Witness, Observes: res.Observes, Reached: res.Reached, MapOrder: res.MapOrders > 0})
				}
				if rep.TotalPaths >= c.MaxPaths {
					stop = true
					rep.Inconclusive = append(rep.Inconclusive, fmt.Sprintf("path budget %d exhausted", c.MaxPaths))
				}
				if !stop && c.MaxSecs > 0 && time.Since(t0).Seconds() > float64(c.MaxSecs) {
					stop = true
					rep.Inconclusive = append(rep.Inconclusive, fmt.Sprintf("time budget %ds exhausted after %d paths", c.MaxSecs, rep.TotalPaths))
				}
				mu.Unlock()
				cond.Broadcast()
			}
		}(w)
	}
	wg.Wait()
	for _, l := range c.Reach {
		if rep.Reached[l] == 0 {
			rep.Inconclusive = append(rep.Inconclusive, fmt.Sprintf("vacuity: label %q never reached", l))
		}
	}
	rep.Wall = time.Since(t0).Seconds()
	return rep
}

func (r *CaseReport) Print(w io.Writer, show int) {
	fmt.Fprintf(w, "%s: %d paths %v, %d steps (max %d/path), %.2fs\n", r.Case, r.TotalPaths, r.Paths, r.Steps, r.MaxPathSteps, r.Wall)
	keys := make([]string, 0)
	for k, n := range r.ViolCount {
		keys = append(keys, fmt.Sprintf("%s ×%d", k, n))
	}
	sort.Strings(keys)
	for _, k := range keys {
		fmt.Fprintln(w, "  violation:", k)
	}
	for i, v := range r.Violations {
		if i >= show {
			break
		}
		fmt.Fprintf(w, "  cex %s %q kf=%q inputs=%s\n     at %s\n", v.Kind, v.Msg, v.KF, fmtInputs(v.Inputs), v.Stack)
	}
	for i, wt := range r.Witnesses {
		if i >= show {
			break
		}
		fmt.Fprintf(w, "  witness inputs=%s obs=%v\n", fmtInputs(wt.Inputs), wt.Observes)
	}
	for _, m := range r.Inconclusive {
		fmt.Fprintln(w, "  INCONCLUSIVE:", m)
	}
	fmt.Fprintf(w, "  reached: %v\n", r.Reached)
}

func fmtInputs(in []interp.InputVal) string {
	var sb strings.Builder
	var bytes []byte
	flush := func() {
		if len(bytes) > 0 {
			fmt.Fprintf(&sb, "%q ", string(bytes))
			bytes = nil
		}
	}
	for _, v := range in {
		if v.K == "byte" {
			bytes = append(bytes, byte(v.V))
			continue
		}
		flush()
		fmt.Fprintf(&sb, "%s:%d ", v.K, v.V)
	}
	flush()
	return strings.TrimSpace(sb.String())
}
