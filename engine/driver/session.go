// Package driver loads /repo's current working tree (plus harness overlay),
// runs the symbolic exploration on a pool of workers and replays results natively.
package driver

import (
	"fmt"
	"go/ast"
	"go/token"
	"io"
	"io/fs"
	"os"
	"path/filepath"
	"sort"
	"strings"
	"sync"
	"time"

	"golang.org/x/tools/go/packages"
	"golang.org/x/tools/go/ssa"
	"golang.org/x/tools/go/ssa/ssautil"

	"verif/gosym/interp"
)

type Config struct {
	VerifDir string
	Repo     string
	Workers  int
	Tier     string
	Seed     int64
	Debug    bool
	Solver   string
	XCheck   string // second solver for assertion queries ("" = off)
}

const modPath = "github.com/octohelm/gengo"

type Session struct {
	cfg      Config
	prog     *ssa.Program
	pkgs     map[string]*ssa.Package
	workers  []*interp.Interp
	overlay  map[string]string // virtual path → real file
	LoadSecs float64
	InitErrs []string
	// DroppedOptional: optional white-box harness files (zz_verif_opt_*.go) left out
	// because they do not compile against the current tree (see Open)
	DroppedOptional []string
}

// harnessOverlay maps every file under <verif>/harness (except *.json) to the
// same relative path under the repository.
func harnessOverlay(cfg Config) (map[string]string, error) {
	out := map[string]string{}
	root := filepath.Join(cfg.VerifDir, "harness")
	err := filepath.WalkDir(root, func(p string, d fs.DirEntry, err error) error {
		if err != nil {
			return err
		}
		if d.IsDir() || !strings.HasSuffix(p, ".go") {
			return nil
		}
		rel, _ := filepath.Rel(root, p)
		out[filepath.Join(cfg.Repo, rel)] = p
		return nil
	})
	return out, err
}

// initAllowed lists the packages whose initialisers are executed (concretely,
// from their real SSA) before exploration. Everything else keeps zero-valued
// package variables; reaching code that needs them is reported as unsupported.
func initAllowed(path string) bool {
	if strings.HasPrefix(path, modPath) {
		return true
	}
	switch path {
	case "unicode/utf8", "unicode", "strings", "bytes", "strconv", "sort", "slices", "maps",
		"errors", "io", "io/fs", "internal/oserror", "path", "path/filepath", "internal/filepathlite", "bufio", "go/token",
		"go/types", "go/ast", "go/constant", "go/scanner", "unicode/utf16", "math/bits", "internal/stringslite", "internal/bytealg", "cmp", "iter", "text/scanner", "context", "github.com/go-courier/logr", "github.com/octohelm/x/context", "github.com/octohelm/x/types", "github.com/octohelm/x/reflect":
		return true
	// the real parser, type checker and printer (harnesses that hand Go source to
	// the code under test run them; the Execute scenarios keep the ParseFile /
	// format.Node contract stubs unless a harness asks for the real bodies)
	case "go/parser", "go/build/constraint", "internal/types/errors", "go/version", "internal/goversion", "internal/gover",
		"math/big", "math", "internal/godebug", "go/internal/typeparams", "container/heap", "go/format", "go/printer",
		"text/tabwriter", "go/doc/comment":
		return true
	}
	// experiments: GOSYM_EXTRA_ALLOW=pkg1,pkg2 interprets more packages from source
	if extra := os.Getenv("GOSYM_EXTRA_ALLOW"); extra != "" {
		for _, e := range strings.Split(extra, ",") {
			if e == path {
				return true
			}
		}
	}
	return false
}

func Open(cfg Config, pkgPaths []string) (*Session, error) {
	t0 := time.Now()
	if cfg.Solver == "" {
		cfg.Solver = "z3-new"
	}
	ov, err := harnessOverlay(cfg)
	if err != nil {
		return nil, err
	}
	var pkgs []*packages.Package
	var dropped []string
	for attempt := 0; ; attempt++ {
		overlay := map[string][]byte{}
		for virt, real := range ov {
			if strings.HasSuffix(virt, "_test.go") {
				continue
			}
			b, err := os.ReadFile(real)
			if err != nil {
				return nil, err
			}
			overlay[virt] = b
		}
		pcfg := &packages.Config{
			Mode:    packages.LoadAllSyntax | packages.NeedEmbedFiles,
			Dir:     cfg.Repo,
			Overlay: overlay,
			Env:     append(os.Environ(), "GOFLAGS=-mod=mod", "GOPROXY=off"),
		}
		pkgs, err = packages.Load(pcfg, pkgPaths...)
		if err != nil {
			return nil, err
		}
		var errs []string
		packages.Visit(pkgs, nil, func(p *packages.Package) {
			for _, e := range p.Errors {
				errs = append(errs, e.Error())
			}
		})
		if len(errs) == 0 {
			break
		}
		// Optional harness files (zz_verif_opt_*.go) look at unexported internals
		// for translator validation only. If the tree no longer has those internals
		// they are left out - and reported - instead of making the whole check
		// inconclusive; the property harnesses must still compile.
		retried := false
		if attempt == 0 {
			for virt := range ov {
				if strings.HasPrefix(filepath.Base(virt), "zz_verif_opt_") && strings.Contains(strings.Join(errs, "\n"), filepath.Base(virt)) {
					retried = true
				}
			}
			if retried {
				for virt := range ov {
					if strings.HasPrefix(filepath.Base(virt), "zz_verif_opt_") {
						dropped = append(dropped, filepath.Base(virt))
						delete(ov, virt)
					}
				}
				sort.Strings(dropped)
				continue
			}
		}
		return nil, fmt.Errorf("package errors (harness does not compile against the current tree?):\n%s", strings.Join(errs, "\n"))
	}
	prog, _ := ssautil.AllPackages(pkgs, ssa.InstantiateGenerics)
	prog.Build()
	s := &Session{cfg: cfg, prog: prog, pkgs: map[string]*ssa.Package{}, overlay: ov, DroppedOptional: dropped}
	// //go:embed variables: pkg path → var name → file content
	embed := map[string]map[string][]byte{}
	packages.Visit(pkgs, nil, func(p *packages.Package) {
		if len(p.EmbedFiles) == 0 {
			return
		}
		byBase := map[string]string{}
		for _, f := range p.EmbedFiles {
			byBase[filepath.Base(f)] = f
		}
		m := map[string][]byte{}
		for _, f := range p.Syntax {
			for _, d := range f.Decls {
				gd, ok := d.(*ast.GenDecl)
				if !ok || gd.Tok != token.VAR || gd.Doc == nil {
					continue
				}
				for _, c := range gd.Doc.List {
					if strings.HasPrefix(c.Text, "//go:embed ") {
						pat := strings.TrimSpace(strings.TrimPrefix(c.Text, "//go:embed "))
						if file, ok := byBase[pat]; ok {
							if b, err := os.ReadFile(file); err == nil {
								for _, sp := range gd.Specs {
									for _, n := range sp.(*ast.ValueSpec).Names {
										m[n.Name] = b
									}
								}
							}
						}
					}
				}
			}
		}
		embed[p.PkgPath] = m
	})
	for _, p := range prog.AllPackages() {
		s.pkgs[p.Pkg.Path()] = p
	}
	// workers
	n := max(cfg.Workers, 1)
	s.workers = make([]*interp.Interp, n)
	var wg sync.WaitGroup
	var mu sync.Mutex
	var firstErr error
	for i := 0; i < n; i++ {
		wg.Add(1)
		go func(i int) {
			defer wg.Done()
			ip, err := interp.New(prog, cfg.Solver, 20000)
			if err != nil {
				mu.Lock()
				firstErr = err
				mu.Unlock()
				return
			}
			ip.InitAllow = initAllowed
			if cfg.XCheck != "" {
				if err := ip.EnableCrossCheck(cfg.XCheck, 60000); err != nil {
					mu.Lock()
					firstErr = err
					mu.Unlock()
					return
				}
			}
			if os.Getenv("GOSYM_FORKSITES") != "" {
				ip.ForkSites = map[string]int{}
			}
			ip.EmbedFiles = embed
			ip.Debug = cfg.Debug && i == 0
			var ierrs []string
			for _, extra := range []string{"unicode/utf8"} {
				if p := s.pkgs[extra]; p != nil {
					if err := ip.RunInit(p); err != nil {
						ierrs = append(ierrs, err.Error())
					}
				}
			}
			for _, pp := range pkgPaths {
				p := s.pkgs[pp]
				if p == nil {
					ierrs = append(ierrs, "package not loaded: "+pp)
					continue
				}
				if err := ip.RunInit(p); err != nil {
					ierrs = append(ierrs, err.Error())
				}
			}
			ip.InitUsed, ip.Used = ip.Used, map[string]string{}
			mu.Lock()
			s.workers[i] = ip
			if i == 0 {
				s.InitErrs = append(ierrs, ip.InitProblems...)
			}
			mu.Unlock()
		}(i)
	}
	wg.Wait()
	if firstErr != nil {
		return nil, firstErr
	}
	s.LoadSecs = time.Since(t0).Seconds()
	return s, nil
}

func (s *Session) Close() {
	for _, w := range s.workers {
		if w != nil {
			w.Close()
		}
	}
}

// Used merges the function-class tables of all workers.
func (s *Session) Used() map[string]string {
	out := map[string]string{}
	for _, w := range s.workers {
		for k, v := range w.Used {
			out[k] = v
		}
	}
	return out
}

func (s *Session) UsedByClass() map[string][]string {
	out := map[string][]string{}
	for k, v := range s.Used() {
		if strings.Contains(k, "internal/verifsym.") {
			continue
		}
		out[v] = append(out[v], k)
	}
	for k := range out {
		sort.Strings(out[k])
	}
	return out
}

type SolverTotals struct {
	Queries, CacheHits, Sat, Unsat, Unknown, Errors int
	SolverSec                                       float64
	Steps                                           int64
	Decides, FastPath, Forks, EnumQueries           int
	XChecked, XDisagree, XUnknown                   int
}

func (s *Session) SolverTotals() SolverTotals {
	var t SolverTotals
	for _, w := range s.workers {
		st := w.Sol.Stats
		t.Queries += st.Queries
		t.CacheHits += st.CacheHits
		t.Sat += st.Sat
		t.Unsat += st.Unsat
		t.Unknown += st.Unknown
		t.Errors += st.Errors
		t.SolverSec += st.SolverSec
		t.Steps += w.Stats.Steps
		t.Decides += w.Stats.Decides
		t.FastPath += w.Stats.FastPath
		t.Forks += w.Stats.Forks
		t.EnumQueries += w.Stats.EnumQueries
		t.XChecked += w.Stats.XChecked
		t.XDisagree += w.Stats.XDisagree
		t.XUnknown += w.Stats.XUnknown
	}
	return t
}

func (s *Session) ForkSites() map[string]int {
	out := map[string]int{}
	for _, w := range s.workers {
		for k, v := range w.ForkSites {
			out[k] += v
		}
	}
	return out
}

func (s *Session) harnessFunc(pkg, fn string) (*ssa.Function, error) {
	p := s.pkgs[pkg]
	if p == nil {
		return nil, fmt.Errorf("package %s not loaded", pkg)
	}
	f := p.Func(fn)
	if f == nil {
		return nil, fmt.Errorf("harness %s.%s not found", pkg, fn)
	}
	return f, nil
}

var _ = io.Discard
