package driver

import (
	"encoding/json"
	"fmt"
	"os"
	"os/exec"
	"path/filepath"
	"reflect"
	"strings"
	"time"

	"verif/gosym/interp"
)

type ReplayCase struct {
	ID      string            `json:"id"`
	Pkg     string            `json:"pkg"`
	Harness string            `json:"harness"`
	Params  []int64           `json:"params"`
	Inputs  []interp.InputVal `json:"inputs"`
	// expectation
	Kind     string   `json:"kind"` // witness | assert | panic | stackoverflow
	Msg      string   `json:"msg,omitempty"`
	KF       string   `json:"kf,omitempty"`
	Observes []string `json:"observes,omitempty"`
	Reached  []string `json:"reached,omitempty"`
	MapOrder bool     `json:"map_order_dependent,omitempty"`
	Repeat   int      `json:"repeat,omitempty"`
	// outcome
	Confirmed bool   `json:"confirmed"`
	Native    string `json:"native,omitempty"`
	Detail    string `json:"detail,omitempty"`
}

type nativeResult struct {
	ID       string   `json:"id"`
	Outcome  string   `json:"outcome"`
	Msg      string   `json:"msg"`
	Observes []string `json:"observes"`
	Reached  []string `json:"reached"`
	Consumed int      `json:"consumed"`
}

type ReplayReport struct {
	Cases []*ReplayCase
	Wall  float64
	Err   string
}

func (r *ReplayReport) Summary() map[string]any {
	wOK, wBad, vOK, vBad := 0, 0, 0, 0
	var bad []*ReplayCase
	for _, c := range r.Cases {
		switch {
		case c.Kind == "witness" && c.Confirmed:
			wOK++
		case c.Kind == "witness":
			wBad++
			bad = append(bad, c)
		case c.Confirmed:
			vOK++
		default:
			vBad++
			bad = append(bad, c)
		}
	}
	if len(bad) > 5 {
		bad = bad[:5]
	}
	return map[string]any{"witness_confirmed": wOK, "witness_mismatch": wBad, "violations_confirmed": vOK, "violations_not_reproduced": vBad, "mismatches": bad, "wall_s": r.Wall, "err": r.Err}
}

func (s *Session) replayCases(reports []*CaseReport) []*ReplayCase {
	var out []*ReplayCase
	n := 0
	for _, rep := range reports {
		for _, v := range rep.Violations {
			n++
			out = append(out, &ReplayCase{ID: fmt.Sprintf("v%d", n), Pkg: rep.Case.Pkg, Harness: rep.Case.Func, Params: rep.Case.Params,
				Inputs: v.Inputs, Kind: v.Kind, Msg: v.Msg, KF: v.KF, MapOrder: v.MapOrder, Repeat: repeatFor(v.MapOrder)})
		}
		for _, w := range rep.Witnesses {
			n++
			out = append(out, &ReplayCase{ID: fmt.Sprintf("w%d", n), Pkg: rep.Case.Pkg, Harness: rep.Case.Func, Params: rep.Case.Params,
				Inputs: w.Inputs, Kind: "witness", Observes: w.Observes, Reached: w.Reached, MapOrder: w.MapOrder})
		}
	}
	return out
}

// repeatFor: a counterexample that depends on Go's (random) map iteration order is
// run natively up to 60 times; it counts as reproduced if any run fails the same way.
func repeatFor(mapOrder bool) int {
	if mapOrder {
		return 60
	}
	return 0
}

func (s *Session) Replay(reports []*CaseReport) *ReplayReport {
	return s.ReplayCases(s.replayCases(reports))
}

func (s *Session) writeOverlay(dir string) (string, error) {
	ov := map[string]map[string]string{"Replace": s.overlay}
	b, _ := json.Marshal(ov)
	p := filepath.Join(dir, "overlay.json")
	return p, os.WriteFile(p, b, 0o644)
}

// ReplayCases runs the cases natively against the real build (go test -overlay).
func (s *Session) ReplayCases(cases []*ReplayCase) *ReplayReport {
	t0 := time.Now()
	rr := &ReplayReport{Cases: cases}
	if len(cases) == 0 {
		return rr
	}
	dir, err := os.MkdirTemp("", "gosym-replay-")
	if err != nil {
		rr.Err = err.Error()
		return rr
	}
	defer os.RemoveAll(dir)
	ovPath, err := s.writeOverlay(dir)
	if err != nil {
		rr.Err = err.Error()
		return rr
	}
	byPkg := map[string][]*ReplayCase{}
	var solo []*ReplayCase
	for _, c := range cases {
		if c.Kind == "stackoverflow" {
			solo = append(solo, c)
			continue
		}
		byPkg[c.Pkg] = append(byPkg[c.Pkg], c)
	}
	run := func(pkg string, cs []*ReplayCase, tag string) (map[string]nativeResult, string, error) {
		in := filepath.Join(dir, "cases-"+tag+".json")
		out := filepath.Join(dir, "result-"+tag+".json")
		b, _ := json.Marshal(cs)
		if err := os.WriteFile(in, b, 0o644); err != nil {
			return nil, "", err
		}
		cmd := exec.Command("go", "test", "-vet=off", "-count=1", "-run", "^TestVerifReplay$", "-overlay", ovPath, pkg)
		cmd.Dir = s.cfg.Repo
		cmd.Env = append(os.Environ(), "GOFLAGS=-mod=mod", "GOPROXY=off", "VERIFSYM_CASES="+in, "VERIFSYM_RESULT="+out)
		outb, err := cmd.CombinedOutput()
		res := map[string]nativeResult{}
		if data, rerr := os.ReadFile(out); rerr == nil {
			var list []nativeResult
			if jerr := json.Unmarshal(data, &list); jerr == nil {
				for _, r := range list {
					res[r.ID] = r
				}
			}
		}
		return res, string(outb), err
	}
	i := 0
	for pkg, cs := range byPkg {
		i++
		res, out, err := run(pkg, cs, fmt.Sprint(i))
		if err != nil && len(res) == 0 {
			rr.Err += fmt.Sprintf("replay of %s failed: %v\n%s\n", pkg, err, tail(out, 2000))
		}
		for _, c := range cs {
			r, ok := res[c.ID]
			if !ok {
				c.Detail = "no native result"
				continue
			}
			c.Native = r.Outcome
			if r.Msg != "" {
				c.Native += ": " + r.Msg
			}
			switch c.Kind {
			case "witness":
				c.Confirmed = r.Outcome == "ok" && eqStrs(r.Observes, c.Observes) && eqStrs(r.Reached, c.Reached)
				if !c.Confirmed {
					c.Detail = fmt.Sprintf("native observes=%v reached=%v", r.Observes, r.Reached)
				}
			case "assert":
				c.Confirmed = r.Outcome == "assert" && r.Msg == c.Msg
			case "panic":
				c.Confirmed = r.Outcome == "panic"
			}
		}
	}
	for j, c := range solo {
		_, out, _ := run(c.Pkg, []*ReplayCase{c}, fmt.Sprintf("solo%d", j))
		if strings.Contains(out, "stack overflow") || strings.Contains(out, "goroutine stack exceeds") {
			c.Confirmed = true
			c.Native = "fatal: stack overflow"
		} else {
			c.Native = tail(out, 300)
		}
	}
	rr.Wall = time.Since(t0).Seconds()
	return rr
}

func eqStrs(a, b []string) bool {
	if len(a) == 0 && len(b) == 0 {
		return true
	}
	return reflect.DeepEqual(a, b)
}

func tail(s string, n int) string {
	if len(s) > n {
		return s[len(s)-n:]
	}
	return s
}

// ReplayFile replays a stored counterexample file (written by check).
func ReplayFile(path string) int {
	data, err := os.ReadFile(path)
	if err != nil {
		fmt.Fprintln(os.Stderr, err)
		return 2
	}
	var c ReplayCase
	if err := json.Unmarshal(data, &c); err != nil {
		fmt.Fprintln(os.Stderr, err)
		return 2
	}
	root := os.Getenv("VERIF_ROOT")
	if root == "" {
		root = "/verif"
	}
	cfg := Config{VerifDir: root, Repo: "/repo"}
	ov, err := harnessOverlay(cfg)
	if err != nil {
		fmt.Fprintln(os.Stderr, err)
		return 2
	}
	s := &Session{cfg: cfg, overlay: ov}
	c.Confirmed = false
	rr := s.ReplayCases([]*ReplayCase{&c})
	b, _ := json.MarshalIndent(c, "", " ")
	fmt.Println(string(b))
	if rr.Err != "" {
		fmt.Fprintln(os.Stderr, rr.Err)
	}
	if c.Confirmed {
		fmt.Printf("REPRODUCED property-violation kind=%s msg=%q native=%q\n", c.Kind, c.Msg, c.Native)
		return 1
	}
	fmt.Println("not reproduced on this tree")
	return 0
}
