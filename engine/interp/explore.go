package interp

import (
	"fmt"
	"go/types"
	"os"
	"runtime/debug"
	"sort"
	"strings"

	"golang.org/x/tools/go/ssa"

	"verif/gosym/solver"
	"verif/gosym/sym"
)

type InputVal struct {
	K string `json:"k"`
	V int64  `json:"v"`
}

type Violation struct {
	Kind   string     `json:"kind"` // assert | panic | stackoverflow
	Msg    string     `json:"msg"`
	Stack  string     `json:"stack,omitempty"`
	KF     string     `json:"kf,omitempty"` // known-finding id that covers this model ("" = not covered)
	Inputs []InputVal `json:"inputs"`
	// MapOrder: the failing path took a non-default map iteration order
	MapOrder bool `json:"map_order_dependent,omitempty"`
}

type PathResult struct {
	Outcome    string // ok | pruned | violation | unwind | unsupported | inconclusive
	Msg        string
	Violations []Violation
	Trace      []Dec
	Pending    []Work
	Steps      int
	Reached    []string
	Inconcl    []string
	Witness    []InputVal // model of the path condition (if requested and path completed)
	Observes   []string   // canonical observations evaluated under Witness
	HasWitness bool
	MapOrders  int // number of map-order choices on the path
	NInputs    int
}

func (ip *Interp) resetPath(w Work) {
	prefix := w.Prefix
	ip.model = w.Model
	if ip.model == nil {
		ip.model = map[string]uint64{}
	}
	ip.undoAll()
	ip.pc = ip.pc[:0]
	ip.pcSet = map[*sym.Term]bool{}
	ip.prefix = prefix
	ip.pos = 0
	ip.trace = ip.trace[:0]
	ip.pending = nil
	ip.steps = 0
	ip.depth = 0
	ip.inputs = ip.inputs[:0]
	ip.observes = ip.observes[:0]
	ip.reached = nil
	ip.kfs = nil
	ip.inconcl = nil
	ip.nsym = 0
	ip.curFrame = nil
	ip.violations = nil
	ip.mapOrders = 0
	ip.orderPolicy = -1
	ip.deviated = false
	ip.orderBaseline = false
	ip.runeBytes = map[*sym.Term][]*sym.Term{}
	ip.stubMemo = map[string]Str{}
	ip.fs = newFS()
	ip.parsed = nil
	ip.provided = map[string]Value{}
}

// RunPath executes the harness once along the path selected by prefix.
func (ip *Interp) RunPath(fn *ssa.Function, params []int64, work Work, wantWitness bool) (res PathResult) {
	ip.resetPath(work)
	args := make([]Value, len(params))
	for i, p := range params {
		args[i] = ip.ctx.BV(uint64(p), 64)
	}
	func() {
		defer func() {
			r := recover()
			if r == nil {
				res.Outcome = "ok"
				return
			}
			switch r := r.(type) {
			case pathEnd:
				res.Outcome, res.Msg = r.outcome, r.msg
				if r.outcome == "stackoverflow" {
					ip.recordViolation("stackoverflow", r.msg, ip.stackString(), nil)
					res.Outcome = "violation"
				}
			case *goPanic:
				if r.inHarness {
					// the harness itself panicked (not the code under test): a harness defect, never a finding
					res.Outcome, res.Msg = "inconclusive", "harness panic: "+r.msg+" at "+r.stack
					break
				}
				ip.recordViolation("panic", r.msg, r.stack, nil)
				res.Outcome, res.Msg = "violation", r.msg
			case unsupportedErr:
				res.Outcome, res.Msg = "unsupported", r.msg+" at "+r.stack
				ip.Stats.Unsupported[r.msg]++
			default:
				res.Outcome = "unsupported"
				res.Msg = fmt.Sprintf("engine error: %v at %s\n%s", r, ip.stackString(), debug.Stack())
			}
		}()
		ip.callSSA(nil, fn, args, nil)
	}()
	if len(ip.violations) > 0 && res.Outcome == "ok" {
		res.Outcome = "violation"
	}
	for i := range ip.violations {
		ip.violations[i].MapOrder = ip.mapOrders > 0
	}
	res.Violations = ip.violations
	res.Trace = append([]Dec(nil), ip.trace...)
	res.Pending = ip.pending
	res.Steps = ip.steps
	res.Reached = ip.reached
	res.Inconcl = ip.inconcl
	res.MapOrders = ip.mapOrders
	res.NInputs = len(ip.inputs)
	ip.Stats.Steps += int64(ip.steps)
	ip.Stats.Paths++
	if res.Outcome == "ok" {
		// engine invariant: the maintained model satisfies the path condition
		memo := map[*sym.Term]uint64{}
		for _, c := range ip.pc {
			if ip.ctx.Eval(c, ip.model, memo) == 0 {
				res.Inconcl = append(res.Inconcl, "engine: model does not satisfy path condition")
				res.Outcome = "inconclusive"
				break
			}
		}
	}
	if wantWitness && res.Outcome == "ok" {
		res.Witness = ip.inputVals(ip.model)
		res.HasWitness = true
		for _, o := range ip.observes {
			res.Observes = append(res.Observes, o.Label+"="+ip.canon(o.V, ip.model))
		}
	}
	ip.undoAll()
	return res
}

func modelAsg(m map[*sym.Term]uint64) map[string]uint64 {
	asg := map[string]uint64{}
	for k, v := range m {
		asg[k.Name] = v
	}
	return asg
}

func (ip *Interp) inputVals(asg map[string]uint64) []InputVal {
	out := make([]InputVal, len(ip.inputs))
	for i, in := range ip.inputs {
		if in.Term == nil {
			out[i] = InputVal{in.Kind, in.Val}
			continue
		}
		v := ip.ctx.Eval(in.Term, asg, map[*sym.Term]uint64{})
		out[i] = InputVal{in.Kind, sym.SignExt(v, max(in.Term.W, 1))}
		if in.Term.W == 0 {
			out[i].V = int64(v)
		}
	}
	return out
}

// recordViolation is called with the failing condition c (nil = the path itself
// fails, e.g. an uncaught panic). It splits the failing region by the known-
// finding predicates registered on this path.
func (ip *Interp) recordViolation(kind, msg, stack string, c *sym.Term) {
	base := append([]*sym.Term(nil), ip.pc...)
	if c != nil {
		base = append(base, ip.ctx.Not(c))
	}
	model := func(extra *sym.Term) ([]InputVal, bool) {
		// cheap: does the current model already witness it?
		if (c == nil || !ip.evalBool(c)) && ip.evalBool(extra) {
			return ip.inputVals(ip.model), true
		}
		q := append(append([]*sym.Term(nil), base...), extra)
		r, m, err := ip.Sol.Check(q, true)
		if err != nil || r == solver.Unknown {
			ip.inconcl = append(ip.inconcl, "violation query unknown")
			return nil, false
		}
		if r != solver.Sat {
			return nil, false
		}
		return ip.inputVals(modelAsg(m)), true
	}
	// region not covered by any known finding
	notKF := ip.ctx.True
	for _, k := range ip.kfs {
		notKF = ip.ctx.And(notKF, ip.ctx.Not(k.Pred))
	}
	if in, ok := model(notKF); ok {
		ip.violations = append(ip.violations, Violation{Kind: kind, Msg: msg, Stack: stack, Inputs: in})
	}
	for _, k := range ip.kfs {
		if in, ok := model(k.Pred); ok {
			ip.violations = append(ip.violations, Violation{Kind: kind, Msg: msg, Stack: stack, KF: k.ID, Inputs: in})
		}
	}
}

// canon renders a value under a model in the same canonical text form that the
// native verifsym.Observe produces.
func (ip *Interp) canon(v Value, asg map[string]uint64) string {
	ev := func(t *sym.Term) uint64 { return ip.ctx.Eval(t, asg, map[*sym.Term]uint64{}) }
	switch x := v.(type) {
	case *sym.Term:
		if x.W == 0 {
			if ev(x) != 0 {
				return "true"
			}
			return "false"
		}
		return fmt.Sprint(sym.SignExt(ev(x), x.W))
	case Str:
		var sb strings.Builder
		for _, b := range x.B {
			sb.WriteByte(byte(ev(b)))
		}
		return fmt.Sprintf("%q", sb.String())
	case Slice:
		var parts []string
		for i := 0; i < x.Len; i++ {
			parts = append(parts, ip.canon(*x.at(i), asg))
		}
		return "[" + strings.Join(parts, ",") + "]"
	case Iface:
		if x.T == nil {
			return "nil"
		}
		return ip.canon(x.V, asg)
	case Struct:
		var parts []string
		for _, f := range x {
			parts = append(parts, ip.canon(f, asg))
		}
		return "{" + strings.Join(parts, ",") + "}"
	case *Value:
		if x == nil {
			return "nil"
		}
		return "&" + ip.canon(*x, asg)
	case *MapObj:
		var parts []string
		for _, e := range ip.mapLive(x) {
			parts = append(parts, ip.canon(e.K, asg)+":"+ip.canon(e.V, asg))
		}
		sort.Strings(parts)
		return "map[" + strings.Join(parts, ",") + "]"
	case nil:
		return "nil"
	}
	return fmt.Sprintf("<%T>", v)
}

// ---------------------------------------------------------------- verifsym intercepts

const symPkg = "github.com/octohelm/gengo/internal/verifsym."

func (ip *Interp) newInput(kind string, w int) *sym.Term {
	t := ip.ctx.Var(fmt.Sprintf("in%d", len(ip.inputs)), w)
	ip.inputs = append(ip.inputs, InputRec{Kind: kind, Term: t})
	return t
}

func registerVerifsym(ip *Interp) {
	reg := func(name string, f Intrinsic) { ip.intrinsics[symPkg+name] = f }
	reg("Byte", func(ip *Interp, fr *frame, a []Value) Value { return ip.newInput("byte", 8) })
	reg("Bool", func(ip *Interp, fr *frame, a []Value) Value { return ip.newInput("bool", 0) })
	reg("Rune", func(ip *Interp, fr *frame, a []Value) Value { return ip.newInput("rune", 32) })
	reg("Int", func(ip *Interp, fr *frame, a []Value) Value { return ip.newInput("int", 64) })
	reg("IntRange", func(ip *Interp, fr *frame, a []Value) Value {
		lo, hi := a[0].(*sym.Term).SignedVal(), a[1].(*sym.Term).SignedVal()
		if hi < lo {
			ip.endPath("pruned", "empty IntRange")
		}
		k := ip.choose(int(hi - lo + 1))
		v := lo + int64(k)
		ip.inputs = append(ip.inputs, InputRec{Kind: "split", Val: v})
		return ip.ctx.BV(uint64(v), 64)
	})
	reg("Bytes", func(ip *Interp, fr *frame, a []Value) Value {
		n := int(a[0].(*sym.Term).SignedVal())
		arr := make([]Value, n)
		for i := range arr {
			arr[i] = ip.newInput("byte", 8)
		}
		return Slice{Arr: &arr, Len: n, Cap: n}
	})
	reg("String", func(ip *Interp, fr *frame, a []Value) Value {
		n := int(a[0].(*sym.Term).SignedVal())
		b := make([]*sym.Term, n)
		for i := range b {
			b[i] = ip.newInput("byte", 8)
		}
		return strOf(b)
	})
	reg("Assume", func(ip *Interp, fr *frame, a []Value) Value {
		c := a[0].(*sym.Term)
		if c.IsConst() {
			if c.Val == 0 {
				ip.endPath("pruned", "assumption false")
			}
			return nil
		}
		if ip.pcSet[c] {
			return nil
		}
		if !ip.evalBool(c) {
			ok, m := ip.solve(c)
			if !ok {
				ip.endPath("pruned", "assumption infeasible")
			}
			ip.model = m
		}
		ip.addPC(c)
		return nil
	})
	reg("Assert", func(ip *Interp, fr *frame, a []Value) Value {
		c := a[0].(*sym.Term)
		msg, _ := a[1].(Str).Concrete()
		ip.nAsserts++
		if c.IsConst() && c.Val != 0 {
			return nil
		}
		if ip.pcSet[c] {
			return nil
		}
		nc := ip.ctx.Not(c)
		ip.nAssertQueries++
		if !c.IsConst() && ip.evalBool(c) {
			if ok, _ := ip.solveZ3(nc); !ok {
				return nil // holds for every value on this path (cross-checked inside solveWith when enabled)
			}
		}
		if os.Getenv("GOSYM_DEBUG_OBS") != "" {
			for _, o := range ip.observes {
				fmt.Fprintf(os.Stderr, "OBS %s=%s\n", o.Label, ip.canon(o.V, ip.model))
			}
		}
		ip.recordViolation("assert", msg, ip.stackString(), c)
		// continue under the assumption that it held, if possible
		if c.IsConst() {
			ip.endPath("violation", msg)
		}
		if !ip.evalBool(c) {
			ok, m := ip.solve(c)
			if !ok {
				ip.endPath("violation", msg)
			}
			ip.model = m
		}
		ip.addPC(c)
		return nil
	})
	reg("Reach", func(ip *Interp, fr *frame, a []Value) Value {
		l, _ := a[0].(Str).Concrete()
		ip.reached = append(ip.reached, l)
		return nil
	})
	reg("Observe", func(ip *Interp, fr *frame, a []Value) Value {
		l, _ := a[0].(Str).Concrete()
		ip.observes = append(ip.observes, Observation{Label: l, V: a[1]})
		return nil
	})
	reg("KF", func(ip *Interp, fr *frame, a []Value) Value {
		id, _ := a[0].(Str).Concrete()
		ip.kfs = append(ip.kfs, kfRec{ID: id, Pred: a[1].(*sym.Term)})
		return nil
	})
	reg("Panics", func(ip *Interp, fr *frame, a []Value) (res Value) {
		res = ip.ctx.False
		func() {
			defer func() {
				if r := recover(); r != nil {
					if _, ok := r.(*goPanic); ok {
						res = ip.ctx.True
						ip.curFrame = fr
						return
					}
					panic(r)
				}
			}()
			d := ip.depth
			ip.call(fr, a[0], nil)
			ip.depth = d
		}()
		return res
	})
	reg("PanicValue", func(ip *Interp, fr *frame, a []Value) (res Value) {
		// runs f; returns "" if no panic, else the panic text (concrete best effort)
		res = mkStr(ip.ctx, "")
		func() {
			defer func() {
				if r := recover(); r != nil {
					if gp, ok := r.(*goPanic); ok {
						res = mkStr(ip.ctx, "panic: "+gp.msg)
						ip.curFrame = fr
						return
					}
					panic(r)
				}
			}()
			ip.call(fr, a[0], nil)
		}()
		return res
	})
	reg("Or", func(ip *Interp, fr *frame, a []Value) Value { return ip.ctx.Or(a[0].(*sym.Term), a[1].(*sym.Term)) })
	reg("And", func(ip *Interp, fr *frame, a []Value) Value { return ip.ctx.And(a[0].(*sym.Term), a[1].(*sym.Term)) })
	reg("Not", func(ip *Interp, fr *frame, a []Value) Value { return ip.ctx.Not(a[0].(*sym.Term)) })
	reg("Symbolic", func(ip *Interp, fr *frame, a []Value) Value { return ip.ctx.True })
	// MapOrderBaseline(true): until switched off again every map range runs in
	// insertion order without a choice - the reference run of a determinism
	// (self-composition) harness; the other run explores the deviations.
	reg("MapOrderBaseline", func(ip *Interp, fr *frame, a []Value) Value {
		ip.orderBaseline = ip.truth(a[0])
		return nil
	})
}

var _ = types.Typ
