package interp

import (
	"fmt"
	"go/types"
	"strings"

	"golang.org/x/tools/go/ssa"

	"verif/gosym/sym"
)

// Value is one of:
//
//	*sym.Term            bool / integer (bit-vector)
//	Str                  string (concrete length, symbolic bytes)
//	*Value               pointer (nil pointer = (*Value)(nil))
//	*SymPtr              pointer into an array at a symbolic index
//	Struct               struct value ([]Value, copied on load/store)
//	Array                array value
//	Slice                slice header
//	Iface                interface value
//	*MapObj              map (nil map = (*MapObj)(nil))
//	*ssa.Function, *ssa.Builtin, *Closure, *NativeFunc   function values
//	Tuple                multi-value
//	*Native              opaque native object (e.g. *regexp.Regexp)
//	Float                float constant (arithmetic unsupported)
//	Poison               result of an unsupported operation during package init
//	nil                  zero func / untyped nil
type Value interface{}

type Str struct {
	B    []*sym.Term // 8-bit terms
	conc *string
}

type Struct []Value
type Array []Value
type Tuple []Value

type Slice struct {
	Arr *[]Value // backing store; nil for nil slice
	Off int
	Len int
	Cap int
}

type Iface struct {
	T types.Type // dynamic type; nil for nil interface
	V Value
}

type Closure struct {
	Fn  *ssa.Function
	Env []Value
}

type NativeFunc struct {
	Name string
	Call func(ip *Interp, args []Value) Value
}

type Native struct {
	V any
}

type Float struct{ F float64 }

type Poison struct{ Why string }

// SymPtr is &base[idx].path... for symbolic idx (already bounds-checked).
type SymPtr struct {
	Base []Value
	Idx  *sym.Term // 64-bit
	Path []int
}

type mapEntry struct {
	K   Value
	V   Value
	Del bool
}

type MapObj struct {
	T       *types.Map
	Entries []*mapEntry
	Index   map[string]int // concrete-key index → position in Entries
	NSym    int            // number of live entries with non-concrete keys
	Live    int
}

func mkStr(ctx *sym.Ctx, s string) Str {
	b := make([]*sym.Term, len(s))
	for i := 0; i < len(s); i++ {
		b[i] = ctx.BV(uint64(s[i]), 8)
	}
	cs := s
	return Str{B: b, conc: &cs}
}

func strOf(b []*sym.Term) Str {
	return Str{B: b}
}

// Concrete returns the Go string if every byte is constant.
func (s Str) Concrete() (string, bool) {
	if s.conc != nil {
		return *s.conc, true
	}
	var sb strings.Builder
	for _, t := range s.B {
		if !t.IsConst() {
			return "", false
		}
		sb.WriteByte(byte(t.Val))
	}
	return sb.String(), true
}

func (s Str) Len() int { return len(s.B) }

func (s Str) String() string {
	if c, ok := s.Concrete(); ok {
		return fmt.Sprintf("%q", c)
	}
	var sb strings.Builder
	sb.WriteString("str[")
	for i, t := range s.B {
		if i > 0 {
			sb.WriteString(" ")
		}
		if t.IsConst() {
			fmt.Fprintf(&sb, "%q", rune(t.Val))
		} else {
			sb.WriteString(t.String())
		}
	}
	sb.WriteString("]")
	return sb.String()
}

func (s Slice) at(i int) *Value {
	return &(*s.Arr)[s.Off+i]
}

func (s Slice) IsNil() bool { return s.Arr == nil }

func intWidth(t types.Type) (w int, signed bool, ok bool) {
	b, isB := t.Underlying().(*types.Basic)
	if !isB {
		return 0, false, false
	}
	switch b.Kind() {
	case types.Int, types.Int64, types.UntypedInt:
		return 64, true, true
	case types.Int8:
		return 8, true, true
	case types.Int16:
		return 16, true, true
	case types.Int32, types.UntypedRune:
		return 32, true, true
	case types.Uint, types.Uint64, types.Uintptr:
		return 64, false, true
	case types.Uint8:
		return 8, false, true
	case types.Uint16:
		return 16, false, true
	case types.Uint32:
		return 32, false, true
	}
	return 0, false, false
}

func isBoolT(t types.Type) bool {
	b, ok := t.Underlying().(*types.Basic)
	return ok && b.Info()&types.IsBoolean != 0
}

func isStringT(t types.Type) bool {
	b, ok := t.Underlying().(*types.Basic)
	return ok && b.Info()&types.IsString != 0
}

func isFloatT(t types.Type) bool {
	b, ok := t.Underlying().(*types.Basic)
	return ok && b.Info()&(types.IsFloat|types.IsComplex) != 0
}

// zero returns the zero value of type t.
func (ip *Interp) zero(t types.Type) Value {
	switch t := t.(type) {
	case *types.Basic:
		if t.Kind() == types.UntypedNil {
			return nil
		}
		if w, _, ok := intWidth(t); ok {
			return ip.ctx.BV(0, w)
		}
		if isBoolT(t) {
			return ip.ctx.False
		}
		if isStringT(t) {
			return mkStr(ip.ctx, "")
		}
		if isFloatT(t) {
			return Float{0}
		}
		if t.Kind() == types.UnsafePointer {
			return (*Value)(nil)
		}
		panic(unsupported("zero of basic type " + t.String()))
	case *types.Pointer:
		return (*Value)(nil)
	case *types.Struct:
		s := make(Struct, t.NumFields())
		for i := range s {
			s[i] = ip.zero(t.Field(i).Type())
		}
		return s
	case *types.Array:
		a := make(Array, t.Len())
		for i := range a {
			a[i] = ip.zero(t.Elem())
		}
		return a
	case *types.Slice:
		return Slice{}
	case *types.Interface:
		return Iface{}
	case *types.Map:
		return (*MapObj)(nil)
	case *types.Signature:
		return nil
	case *types.Chan:
		return (*Value)(nil)
	case *types.Named:
		return ip.zero(t.Underlying())
	case *types.Alias:
		return ip.zero(types.Unalias(t))
	case *types.Tuple:
		if t.Len() == 1 {
			return ip.zero(t.At(0).Type())
		}
		s := make(Tuple, t.Len())
		for i := range s {
			s[i] = ip.zero(t.At(i).Type())
		}
		return s
	case *types.TypeParam:
		panic(unsupported("zero of type parameter"))
	}
	panic(unsupported(fmt.Sprintf("zero of %T", t)))
}

// copyVal deep-copies aggregate values (struct/array), as Go value semantics require.
func copyVal(v Value) Value {
	switch v := v.(type) {
	case Struct:
		n := make(Struct, len(v))
		for i, f := range v {
			n[i] = copyVal(f)
		}
		return n
	case Array:
		n := make(Array, len(v))
		for i, f := range v {
			n[i] = copyVal(f)
		}
		return n
	}
	return v
}

type unsupportedErr struct{ msg, stack string }

func unsupported(msg string) unsupportedErr { return unsupportedErr{msg: msg} }

func (u unsupportedErr) Error() string { return "unsupported: " + u.msg }
