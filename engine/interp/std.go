package interp

import (
	"fmt"
	"go/types"
	"strings"

	"golang.org/x/tools/go/ssa"

	"verif/gosym/sym"
)

// Contract stubs: environment / third-party functions replaced by an arbitrary
// result constrained only by the documented contract. Each is reported in the
// evidence under functions_encoded.stub and listed as an assumption.

func (ip *Interp) regStub(name string, f Intrinsic) {
	ip.intrinsics[name] = func(ip *Interp, fr *frame, a []Value) Value {
		ip.Used[name] = "stub"
		return f(ip, fr, a)
	}
}

// stubString returns an arbitrary string of length n that is a function of
// (name, in): the same input terms give the same output terms on a path.
func (ip *Interp) stubString(name string, in Str, n int) Str {
	var kb strings.Builder
	kb.WriteString(name)
	for _, b := range in.B {
		fmt.Fprintf(&kb, ",%d", b.ID)
	}
	key := kb.String()
	if s, ok := ip.stubMemo[key]; ok {
		return s
	}
	b := make([]*sym.Term, n)
	for i := range b {
		ip.nsym++
		b[i] = ip.ctx.Var(fmt.Sprintf("stub%d", ip.nsym), 8)
	}
	s := strOf(b)
	ip.stubMemo[key] = s
	return s
}

func resultZero(ip *Interp, fnName string, fr *frame) Value {
	return nil
}

func registerStdIntrinsics(ip *Interp) {
	registerFmt(ip)
	// golang.org/x/text/cases: Title(...).String(w) — total, arbitrary text of the
	// input's length (x/text itself is outside the claim).
	ip.regStub("golang.org/x/text/cases.Title", func(ip *Interp, fr *frame, a []Value) Value {
		f := ip.Prog.ImportedPackage("golang.org/x/text/cases").Func("Title")
		return ip.zero(f.Signature.Results().At(0).Type())
	})
	registerStd2(ip)
	registerFS(ip)
	registerSync(ip)
	registerEnv(ip)
	registerRegexp(ip)
}

// ---------------------------------------------------------------- fmt

// sprintf implements the verbs that occur in the code under test with concrete
// format strings: %s %v %d %q %w %%. Symbolic string arguments are copied as
// symbolic bytes; anything else must be concrete.
func (ip *Interp) sprintf(format string, args []Value) (Str, Value) {
	var out []*sym.Term
	var wrapped Value
	lit := func(s string) { out = append(out, mkStr(ip.ctx, s).B...) }
	ai := 0
	for i := 0; i < len(format); i++ {
		ch := format[i]
		if ch != '%' {
			out = append(out, ip.ctx.BV(uint64(ch), 8))
			continue
		}
		i++
		if i >= len(format) {
			lit("%!(NOVERB)")
			break
		}
		verb := format[i]
		if verb == '%' {
			lit("%")
			continue
		}
		if ai >= len(args) {
			lit("%!" + string(verb) + "(MISSING)")
			continue
		}
		a := args[ai]
		ai++
		if verb == 'w' {
			wrapped = a
		}
		out = append(out, ip.fmtValue(verb, a).B...)
	}
	return strOf(out), wrapped
}

func (ip *Interp) fmtValue(verb byte, a Value) Str {
	itf, ok := a.(Iface)
	if !ok {
		panic(unsupported("fmt: non-interface argument"))
	}
	if itf.T == nil {
		if verb == 'd' {
			return mkStr(ip.ctx, "%!d(<nil>)")
		}
		return mkStr(ip.ctx, "<nil>")
	}
	// error / Stringer
	if verb == 's' || verb == 'v' || verb == 'w' || verb == 'q' {
		for _, m := range []string{"Error", "String"} {
			if f := ip.findMethod(itf.T, m); f != nil && f.Signature.Params().Len() == 0 && f.Signature.Results().Len() == 1 && isStringT(f.Signature.Results().At(0).Type()) {
				r := ip.call(ip.curFrame, f, []Value{itf.V})
				return ip.fmtStr(verb, r.(Str))
			}
		}
	}
	switch v := itf.V.(type) {
	case Str:
		return ip.fmtStr(verb, v)
	case *sym.Term:
		if !v.IsConst() {
			// only ever used to build panic / error messages, whose text no harness reads
			ip.Used["fmt: symbolic integer rendered as placeholder text"] = "stub"
			return mkStr(ip.ctx, "<symbolic>")
		}
		if v.W == 0 {
			if v.Val != 0 {
				return mkStr(ip.ctx, "true")
			}
			return mkStr(ip.ctx, "false")
		}
		_, signed, _ := intWidth(itf.T)
		if signed {
			return mkStr(ip.ctx, fmt.Sprintf("%"+string(verb), v.SignedVal()))
		}
		return mkStr(ip.ctx, fmt.Sprintf("%"+string(verb), v.Val))
	case Slice:
		if s, ok := itf.T.Underlying().(interface {
			Elem() interface{ String() string }
		}); ok {
			_ = s
		}
	}
	return mkStr(ip.ctx, fmt.Sprintf("<%s value>", itf.T.String()))
}

func (ip *Interp) fmtStr(verb byte, s Str) Str {
	if verb == 'q' {
		if c, ok := s.Concrete(); ok {
			return mkStr(ip.ctx, fmt.Sprintf("%q", c))
		}
		// symbolic text inside quotes: quoting escapes are not modelled; the text is only used in messages
		b := append([]*sym.Term{ip.ctx.BV('"', 8)}, s.B...)
		return strOf(append(b, ip.ctx.BV('"', 8)))
	}
	return s
}

func variadicArgs(v Value) []Value {
	sl := v.(Slice)
	out := make([]Value, sl.Len)
	for i := range out {
		out[i] = *sl.at(i)
	}
	return out
}

func (ip *Interp) newError(msg Str) Value {
	p := ip.Prog.ImportedPackage("errors")
	return ip.callSSA(ip.curFrame, p.Func("New"), []Value{msg}, nil)
}

func registerFmt(ip *Interp) {
	ip.reg("fmt.Sprintf", func(ip *Interp, fr *frame, a []Value) Value {
		f, ok := a[0].(Str).Concrete()
		if !ok {
			panic(unsupported("fmt.Sprintf with symbolic format"))
		}
		s, _ := ip.sprintf(f, variadicArgs(a[1]))
		return s
	})
	ip.reg("fmt.Errorf", func(ip *Interp, fr *frame, a []Value) Value {
		f, ok := a[0].(Str).Concrete()
		if !ok {
			panic(unsupported("fmt.Errorf with symbolic format"))
		}
		s, wrapped := ip.sprintf(f, variadicArgs(a[1]))
		if wrapped == nil {
			return ip.newError(s)
		}
		// *fmt.wrapError{msg, err}
		t := ip.Prog.ImportedPackage("fmt").Type("wrapError")
		p := new(Value)
		*p = Struct{s, wrapped}
		return Iface{T: typesPointer(t.Type()), V: p}
	})
	ip.reg("fmt.Fprintf", func(ip *Interp, fr *frame, a []Value) Value {
		f, ok := a[1].(Str).Concrete()
		if !ok {
			panic(unsupported("fmt.Fprintf with symbolic format"))
		}
		s, _ := ip.sprintf(f, variadicArgs(a[2]))
		w := a[0].(Iface)
		if w.T == nil {
			ip.rtPanic("invalid memory address or nil pointer dereference (nil io.Writer)")
		}
		m := ip.findMethod(w.T, "Write")
		if m == nil {
			panic(unsupported("fmt.Fprintf: writer without Write"))
		}
		return ip.call(fr, m, []Value{w.V, ip.bytesSliceValue(s.B)})
	})
	ip.reg("fmt.Sprint", func(ip *Interp, fr *frame, a []Value) Value {
		var out []*sym.Term
		for _, x := range variadicArgs(a[0]) {
			out = append(out, ip.fmtValue('v', x).B...)
		}
		return strOf(out)
	})
	for _, n := range []string{"fmt.Println", "fmt.Printf", "fmt.Print"} {
		ip.reg(n, func(ip *Interp, fr *frame, a []Value) Value {
			return Tuple{ip.ctx.BV(0, 64), Iface{}}
		})
	}
	ip.allowFn["(*fmt.wrapError).Error"] = true
	ip.allowFn["(*fmt.wrapError).Unwrap"] = true
}

var _ *ssa.Function

func typesPointer(t types.Type) types.Type { return types.NewPointer(t) }
