package interp

import (
	"fmt"
	"strings"

	"golang.org/x/tools/go/ssa"

	"verif/gosym/sym"
)

// Contract stubs: environment / third-party functions replaced by an arbitrary
// result constrained only by the documented contract. Each is reported in the
// evidence under functions_encoded.stub and listed as an assumption.

func (ip *Interp) regStub(name string, f Intrinsic) {
	ip.intrinsics[name] = func(ip *Interp, fr *frame, a []Value) Value {
		ip.Used[name] = "stub"
		return f(ip, fr, a)
	}
}

// stubString returns an arbitrary string of length n that is a function of
// (name, in): the same input terms give the same output terms on a path.
func (ip *Interp) stubString(name string, in Str, n int) Str {
	var kb strings.Builder
	kb.WriteString(name)
	for _, b := range in.B {
		fmt.Fprintf(&kb, ",%d", b.ID)
	}
	key := kb.String()
	if s, ok := ip.stubMemo[key]; ok {
		return s
	}
	b := make([]*sym.Term, n)
	for i := range b {
		ip.nsym++
		b[i] = ip.ctx.Var(fmt.Sprintf("stub%d", ip.nsym), 8)
	}
	s := strOf(b)
	ip.stubMemo[key] = s
	return s
}

func resultZero(ip *Interp, fnName string, fr *frame) Value {
	return nil
}

func registerStdIntrinsics(ip *Interp) {
	// golang.org/x/text/cases: Title(...).String(w) — total, arbitrary text of the
	// input's length (x/text itself is outside the claim).
	ip.regStub("golang.org/x/text/cases.Title", func(ip *Interp, fr *frame, a []Value) Value {
		f := ip.Prog.ImportedPackage("golang.org/x/text/cases").Func("Title")
		return ip.zero(f.Signature.Results().At(0).Type())
	})
	ip.regStub("(golang.org/x/text/cases.Caser).String", func(ip *Interp, fr *frame, a []Value) Value {
		in := a[1].(Str)
		return ip.stubString("cases.Caser.String", in, len(in.B))
	})
}

var _ *ssa.Function
