package interp

import (
	"fmt"
	"go/types"
	"strings"

	"golang.org/x/tools/go/ssa"

	"verif/gosym/sym"
)

func (ip *Interp) newMap(t *types.Map) *MapObj {
	return &MapObj{T: t, Index: map[string]int{}}
}

// concKey returns a canonical string for fully concrete keys.
func concKey(v Value) (string, bool) {
	switch k := v.(type) {
	case *sym.Term:
		if k.IsConst() {
			return fmt.Sprintf("i%d:%d", k.W, k.Val), true
		}
		return "", false
	case Str:
		if s, ok := k.Concrete(); ok {
			return "s" + s, true
		}
		return "", false
	case *Value:
		return fmt.Sprintf("p%p", k), true
	case *Native:
		return fmt.Sprintf("n%p", k), true
	case Iface:
		if k.T == nil {
			return "nil", true
		}
		s, ok := concKey(k.V)
		if !ok {
			return "", false
		}
		return "I" + k.T.String() + "|" + s, true
	case Struct:
		var sb strings.Builder
		sb.WriteString("{")
		for _, f := range k {
			s, ok := concKey(f)
			if !ok {
				return "", false
			}
			fmt.Fprintf(&sb, "%d:%s,", len(s), s)
		}
		sb.WriteString("}")
		return sb.String(), true
	case Array:
		var sb strings.Builder
		sb.WriteString("[")
		for _, f := range k {
			s, ok := concKey(f)
			if !ok {
				return "", false
			}
			fmt.Fprintf(&sb, "%d:%s,", len(s), s)
		}
		sb.WriteString("]")
		return sb.String(), true
	case *MapObj:
		return fmt.Sprintf("m%p", k), true
	case *ssa.Function:
		return fmt.Sprintf("f%p", k), true
	case *Closure:
		return fmt.Sprintf("c%p", k), true
	}
	return "", false
}

// find locates the entry for key k, forking on symbolic key equality.
func (ip *Interp) mapFind(m *MapObj, k Value) *mapEntry {
	if m == nil {
		return nil
	}
	if itf, ok := k.(Iface); ok && itf.T != nil && !types.Comparable(itf.T) {
		ip.rtPanic("hash of unhashable type " + itf.T.String())
	}
	ck, conc := concKey(k)
	if conc && m.NSym == 0 {
		if i, ok := m.Index[ck]; ok {
			return m.Entries[i]
		}
		return nil
	}
	var kt types.Type
	if m.T != nil {
		kt = m.T.Key()
	}
	for _, e := range m.Entries {
		if e.Del {
			continue
		}
		if ip.decide(ip.eq(kt, k, e.K)) {
			return e
		}
	}
	return nil
}

func (ip *Interp) mapSet(m *MapObj, k, v Value) {
	if m == nil {
		ip.rtPanic("assignment to entry in nil map")
	}
	if e := ip.mapFind(m, k); e != nil {
		old := e.V
		ip.journal = append(ip.journal, func() { e.V = old })
		e.V = v
		return
	}
	e := &mapEntry{K: k, V: v}
	pos := len(m.Entries)
	m.Entries = append(m.Entries, e)
	m.Live++
	ck, conc := concKey(k)
	if conc {
		m.Index[ck] = pos
	} else {
		m.NSym++
	}
	ip.journal = append(ip.journal, func() {
		m.Entries = m.Entries[:pos]
		m.Live--
		if conc {
			delete(m.Index, ck)
		} else {
			m.NSym--
		}
	})
}

func (ip *Interp) mapDelete(m *MapObj, k Value) {
	if m == nil {
		return
	}
	e := ip.mapFind(m, k)
	if e == nil {
		return
	}
	ck, conc := concKey(e.K)
	var pos int
	if conc {
		pos = m.Index[ck]
		delete(m.Index, ck)
	} else {
		m.NSym--
	}
	e.Del = true
	m.Live--
	ip.journal = append(ip.journal, func() {
		e.Del = false
		m.Live++
		if conc {
			m.Index[ck] = pos
		} else {
			m.NSym++
		}
	})
}

func (ip *Interp) mapLive(m *MapObj) []*mapEntry {
	if m == nil {
		return nil
	}
	out := make([]*mapEntry, 0, m.Live)
	for _, e := range m.Entries {
		if !e.Del {
			out = append(out, e)
		}
	}
	return out
}

func (ip *Interp) lookup(instr *ssa.Lookup, x, idx Value) Value {
	if p, ok := x.(Poison); ok && ip.inInit {
		return p
	}
	switch xv := x.(type) {
	case Str:
		return ip.index(instr.X.Type(), xv, idx, instr.Index.Type())
	case *MapObj:
		e := ip.mapFind(xv, idx)
		var v Value
		if e != nil {
			v = copyVal(e.V)
		} else {
			v = ip.zero(instr.X.Type().Underlying().(*types.Map).Elem())
		}
		if instr.CommaOk {
			return Tuple{v, ip.ctx.Bool(e != nil)}
		}
		return v
	}
	panic(unsupported(fmt.Sprintf("lookup on %T", x)))
}

func (ip *Interp) mapUpdate(m Value, k, v Value) {
	if p, ok := m.(Poison); ok {
		if ip.inInit {
			return
		}
		panic(unsupported("map update on poison: " + p.Why))
	}
	ip.mapSet(m.(*MapObj), k, copyVal(v))
}

// ---------------------------------------------------------------- range iterators

type iterator interface {
	next(ip *Interp) Value
}

type mapIter struct {
	m     *MapObj
	order []*mapEntry
	i     int
}

func (it *mapIter) next(ip *Interp) Value {
	for it.i < len(it.order) {
		e := it.order[it.i]
		it.i++
		if e.Del { // deleted during iteration: not produced
			continue
		}
		return Tuple{ip.ctx.True, e.K, copyVal(e.V)}
	}
	return Tuple{ip.ctx.False, nil, nil}
}

type strIter struct {
	s   Str
	pos int
}

func (it *strIter) next(ip *Interp) Value {
	if it.pos >= len(it.s.B) {
		return Tuple{ip.ctx.False, ip.ctx.BV(0, 64), ip.ctx.BV(0, 32)}
	}
	r, sz := ip.decodeRune(it.s, it.pos)
	at := it.pos
	it.pos += sz
	return Tuple{ip.ctx.True, ip.ctx.BV(uint64(at), 64), r}
}

func factorial(n int) int {
	r := 1
	for i := 2; i <= n; i++ {
		r *= i
	}
	return r
}

// nthPerm returns the k-th permutation (Lehmer code) of 0..n-1.
func nthPerm(n, k int) []int {
	items := make([]int, n)
	for i := range items {
		items[i] = i
	}
	out := make([]int, 0, n)
	for i := n; i >= 1; i-- {
		f := factorial(i - 1)
		j := k / f
		k %= f
		out = append(out, items[j])
		items = append(items[:j], items[j+1:]...)
	}
	return out
}

func (ip *Interp) rangeIter(t types.Type, x Value) Value {
	switch xv := x.(type) {
	case Str:
		return &strIter{s: xv}
	case *MapObj:
		live := ip.mapLive(xv)
		n := len(live)
		if n > 1 {
			if ip.inInit || ip.orderBaseline {
				// concrete init: insertion order (init results must not depend on it; see DESIGN);
				// baseline run of a determinism harness: insertion order, no choice
			} else if ip.MapOrderPolicies < 0 {
				// single-deviation mode: every range uses insertion order except at
				// most one per path, which is reversed or rotated (2N+1 paths for N
				// multi-entry ranges: each range's order sensitivity is explored on its own)
				if !ip.deviated {
					switch ip.choose(3) {
					case 1:
						ip.deviated = true
						ip.mapOrders++
						ord := make([]*mapEntry, n)
						for i := range ord {
							ord[i] = live[n-1-i]
						}
						live = ord
					case 2:
						ip.deviated = true
						ip.mapOrders++
						ord := make([]*mapEntry, n)
						for i := range ord {
							ord[i] = live[(i+1)%n]
						}
						live = ord
					}
				}
			} else if ip.MapOrderPolicies > 0 {
				// one global order policy per path (chosen at the first multi-entry
				// range): 0 insertion order, 1 reverse, 2 rotated by one, 3 reverse rotated ...
				if ip.orderPolicy < 0 {
					ip.orderPolicy = ip.choose(ip.MapOrderPolicies)
					ip.mapOrders++
				}
				ord := make([]*mapEntry, n)
				for i := range ord {
					switch ip.orderPolicy {
					case 0:
						ord[i] = live[i]
					case 1:
						ord[i] = live[n-1-i]
					case 2:
						ord[i] = live[(i+1)%n]
					default:
						ord[i] = live[(2*n-2-i)%n]
					}
				}
				live = ord
			} else {
				if n > ip.MaxMapPerm {
					ip.endPath("unwind", fmt.Sprintf("range over map with %d entries exceeds the permutation bound %d", n, ip.MaxMapPerm))
				}
				k := ip.choose(factorial(n))
				ip.mapOrders++
				perm := nthPerm(n, k)
				ord := make([]*mapEntry, n)
				for i, p := range perm {
					ord[i] = live[p]
				}
				live = ord
			}
		}
		return &mapIter{m: xv, order: live}
	case Poison:
		panic(unsupported("range over poison"))
	}
	panic(unsupported(fmt.Sprintf("range over %T", x)))
}
