package interp

import (
	"fmt"
	"go/types"

	"golang.org/x/tools/go/ssa"

	"verif/gosym/sym"
)

func (ip *Interp) callBuiltin(fr *frame, b *ssa.Builtin, args []Value) Value {
	c := ip.ctx
	for _, a := range args {
		if p, ok := a.(Poison); ok {
			if ip.inInit {
				return p
			}
			panic(unsupported("builtin on poison"))
		}
	}
	switch b.Name() {
	case "len":
		switch x := args[0].(type) {
		case Str:
			return c.BV(uint64(len(x.B)), 64)
		case Slice:
			return c.BV(uint64(x.Len), 64)
		case *MapObj:
			if x == nil {
				return c.BV(0, 64)
			}
			return c.BV(uint64(x.Live), 64)
		case Array:
			return c.BV(uint64(len(x)), 64)
		case *Value:
			if x == nil {
				return c.BV(0, 64)
			}
			return c.BV(uint64(len((*x).(Array))), 64)
		}
	case "cap":
		switch x := args[0].(type) {
		case Slice:
			return c.BV(uint64(x.Cap), 64)
		case Array:
			return c.BV(uint64(len(x)), 64)
		case *Value:
			return c.BV(uint64(len((*x).(Array))), 64)
		}
	case "append":
		return ip.appendSlice(args[0], args[1])
	case "copy":
		dst := args[0].(Slice)
		n := 0
		switch src := args[1].(type) {
		case Slice:
			n = min(dst.Len, src.Len)
			// overlapping-safe
			tmp := make([]Value, n)
			for i := 0; i < n; i++ {
				tmp[i] = copyVal(*src.at(i))
			}
			for i := 0; i < n; i++ {
				ip.storeAt(dst.at(i), tmp[i])
			}
		case Str:
			n = min(dst.Len, len(src.B))
			for i := 0; i < n; i++ {
				ip.write(dst.at(i), src.B[i])
			}
		}
		return c.BV(uint64(n), 64)
	case "delete":
		m, _ := args[0].(*MapObj)
		ip.mapDelete(m, args[1])
		return nil
	case "clear":
		switch x := args[0].(type) {
		case *MapObj:
			for _, e := range ip.mapLive(x) {
				ip.mapDelete(x, e.K)
			}
		case Slice:
			for i := 0; i < x.Len; i++ {
				ip.storeAt(x.at(i), ip.zeroLike(*x.at(i)))
			}
		}
		return nil
	case "print", "println":
		return nil
	case "recover":
		// recover is effective only when called directly by a deferred function
		// while the caller's caller is panicking.
		d := fr
		if d != nil && d.caller != nil && d.caller.panicking {
			p := d.caller.panic
			d.caller.panicking = false
			d.caller.panic = nil
			return p.val
		}
		return Iface{}
	case "min", "max":
		res := args[0]
		for _, a := range args[1:] {
			switch x := res.(type) {
			case *sym.Term:
				y := a.(*sym.Term)
				_, signed, _ := intWidth(b.Type().(*types.Signature).Params().At(0).Type())
				op := sym.OpUlt
				if signed {
					op = sym.OpSlt
				}
				var lt *sym.Term
				if b.Name() == "min" {
					lt = c.Cmp(op, y, x)
				} else {
					lt = c.Cmp(op, x, y)
				}
				res = c.Ite(lt, y, x)
			default:
				panic(unsupported("min/max on non-integers"))
			}
		}
		return res
	case "ssa:wrapnilchk":
		recv := args[0]
		if p, ok := recv.(*Value); ok && p == nil {
			ip.rtPanic(fmt.Sprintf("value method %v.%v called using nil pointer", args[1], args[2]))
		}
		return recv
	}
	panic(unsupported("builtin " + b.Name()))
}

func (ip *Interp) zeroLike(v Value) Value {
	switch x := v.(type) {
	case *sym.Term:
		if x.W == 0 {
			return ip.ctx.False
		}
		return ip.ctx.BV(0, x.W)
	case Str:
		return mkStr(ip.ctx, "")
	case Struct:
		n := make(Struct, len(x))
		for i := range x {
			n[i] = ip.zeroLike(x[i])
		}
		return n
	case Array:
		n := make(Array, len(x))
		for i := range x {
			n[i] = ip.zeroLike(x[i])
		}
		return n
	case *Value:
		return (*Value)(nil)
	case Slice:
		return Slice{}
	case Iface:
		return Iface{}
	case *MapObj:
		return (*MapObj)(nil)
	}
	return nil
}

// appendSlice implements append(s, t...) with Go's visible aliasing semantics:
// when capacity suffices the backing array is shared and written in place.
func (ip *Interp) appendSlice(a0, a1 Value) Value {
	s := a0.(Slice)
	var add []Value
	switch t := a1.(type) {
	case Slice:
		add = make([]Value, t.Len)
		for i := 0; i < t.Len; i++ {
			add[i] = copyVal(*t.at(i))
		}
	case Str:
		add = make([]Value, len(t.B))
		for i, b := range t.B {
			add[i] = b
		}
	default:
		panic(unsupported(fmt.Sprintf("append of %T", a1)))
	}
	if len(add) == 0 {
		return s
	}
	need := s.Len + len(add)
	if s.Arr != nil && need <= s.Cap {
		for i, v := range add {
			p := &(*s.Arr)[s.Off+s.Len+i]
			ip.write(p, v)
		}
		return Slice{Arr: s.Arr, Off: s.Off, Len: need, Cap: s.Cap}
	}
	// grow: new backing array (capacity growth is unspecified in Go; we use
	// doubling, and harnesses must not depend on it)
	ncap := max(need, 2*s.Cap)
	arr := make([]Value, ncap)
	for i := 0; i < s.Len; i++ {
		arr[i] = copyVal(*s.at(i))
	}
	copy(arr[s.Len:], add)
	// zero-fill spare capacity lazily with nil (Go zeroes it; reads beyond len need reslicing)
	if ncap > need {
		for i := need; i < ncap; i++ {
			arr[i] = ip.zeroLike(arr[0])
		}
	}
	return Slice{Arr: &arr, Off: 0, Len: need, Cap: ncap}
}
