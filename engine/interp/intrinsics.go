package interp

import (
	"fmt"

	"verif/gosym/sym"
)

// Exact intrinsics: semantics written in the engine for leaf functions whose
// bodies are assembly / unsafe, or whose interpretation would fork needlessly.
// Every use is recorded in ip.Used and reported in the evidence.

func (ip *Interp) reg(name string, f Intrinsic) { ip.intrinsics[name] = f }

func (ip *Interp) intC(v int64) *sym.Term { return ip.ctx.BV(uint64(v), 64) }

func sliceBytes(v Value) []*sym.Term {
	switch x := v.(type) {
	case Str:
		return x.B
	case Slice:
		out := make([]*sym.Term, x.Len)
		for i := range out {
			out[i] = (*x.at(i)).(*sym.Term)
		}
		return out
	}
	panic(fmt.Sprintf("sliceBytes of %T", v))
}

func (ip *Interp) bytesEq(a, b []*sym.Term) *sym.Term {
	return ip.strEq(strOf(a), strOf(b))
}

// indexOf forks over the first position where sub occurs in s (-1 if none).
func (ip *Interp) indexOf(s, sub []*sym.Term) int {
	for i := 0; i+len(sub) <= len(s); i++ {
		if ip.decide(ip.bytesEq(s[i:i+len(sub)], sub)) {
			return i
		}
	}
	return -1
}

func (ip *Interp) lastIndexOf(s, sub []*sym.Term) int {
	for i := len(s) - len(sub); i >= 0; i-- {
		if ip.decide(ip.bytesEq(s[i:i+len(sub)], sub)) {
			return i
		}
	}
	return -1
}

// byteAccess gives indexed access to the bytes of a string or byte slice without copying.
func byteAccess(v Value) (int, func(i int) *sym.Term) {
	switch x := v.(type) {
	case Str:
		return len(x.B), func(i int) *sym.Term { return x.B[i] }
	case Slice:
		return x.Len, func(i int) *sym.Term { return (*x.at(i)).(*sym.Term) }
	}
	panic(fmt.Sprintf("byteAccess of %T", v))
}

// constMismatch: some position holds two different constants (so the window cannot match).
func constMismatch(at func(i int) *sym.Term, off int, sub []*sym.Term) bool {
	for j, c := range sub {
		a := at(off + j)
		if a.IsConst() && c.IsConst() && a.Val != c.Val {
			return true
		}
	}
	return false
}

func window(at func(i int) *sym.Term, off, n int) []*sym.Term {
	w := make([]*sym.Term, n)
	for j := range w {
		w[j] = at(off + j)
	}
	return w
}

// indexOfV / lastIndexOfV: as indexOf / lastIndexOf, on the value itself (no copy
// of the haystack; windows that differ in a constant are skipped outright).
func (ip *Interp) indexOfV(hay Value, sub []*sym.Term) int {
	n, at := byteAccess(hay)
	for i := 0; i+len(sub) <= n; i++ {
		if constMismatch(at, i, sub) {
			continue
		}
		if ip.decide(ip.bytesEq(window(at, i, len(sub)), sub)) {
			return i
		}
	}
	return -1
}

func (ip *Interp) lastIndexOfV(hay Value, sub []*sym.Term) int {
	n, at := byteAccess(hay)
	for i := n - len(sub); i >= 0; i-- {
		if constMismatch(at, i, sub) {
			continue
		}
		if ip.decide(ip.bytesEq(window(at, i, len(sub)), sub)) {
			return i
		}
	}
	return -1
}

func (ip *Interp) bytesSliceValue(b []*sym.Term) Slice {
	arr := make([]Value, len(b))
	for i, t := range b {
		arr[i] = t
	}
	return Slice{Arr: &arr, Len: len(arr), Cap: len(arr)}
}

func registerIntrinsics(ip *Interp) {
	registerVerifsym(ip)

	idx := func(ip *Interp, fr *frame, a []Value) Value {
		return ip.intC(int64(ip.indexOfV(a[0], sliceBytes(a[1]))))
	}
	idxByte := func(ip *Interp, fr *frame, a []Value) Value {
		return ip.intC(int64(ip.indexOfV(a[0], []*sym.Term{a[1].(*sym.Term)})))
	}
	lastIdx := func(ip *Interp, fr *frame, a []Value) Value {
		return ip.intC(int64(ip.lastIndexOfV(a[0], sliceBytes(a[1]))))
	}
	lastIdxByte := func(ip *Interp, fr *frame, a []Value) Value {
		return ip.intC(int64(ip.lastIndexOfV(a[0], []*sym.Term{a[1].(*sym.Term)})))
	}
	count := func(ip *Interp, fr *frame, a []Value) Value {
		s := sliceBytes(a[0])
		c := a[1].(*sym.Term)
		n := 0
		for _, b := range s {
			if ip.decide(ip.ctx.Eq(b, c)) {
				n++
			}
		}
		return ip.intC(int64(n))
	}
	// three-way comparison of strings / byte slices (assembly in the runtime)
	cmp3 := func(ip *Interp, fr *frame, a []Value) Value {
		x, y := strOf(sliceBytes(a[0])), strOf(sliceBytes(a[1]))
		m1 := ip.ctx.BV(0xFFFFFFFFFFFFFFFF, 64)
		return ip.ctx.Ite(ip.strEq(x, y), ip.ctx.BV(0, 64), ip.ctx.Ite(ip.strLess(x, y), m1, ip.ctx.BV(1, 64)))
	}
	ip.reg("internal/bytealg.CompareString", cmp3)
	ip.reg("internal/bytealg.Compare", cmp3)
	ip.reg("strings.Compare", cmp3)
	ip.reg("bytes.Compare", cmp3)
	ip.reg("internal/bytealg.IndexByteString", idxByte)
	ip.reg("internal/bytealg.IndexByte", idxByte)
	ip.reg("internal/bytealg.IndexString", idx)
	ip.reg("internal/bytealg.Index", idx)
	ip.reg("internal/bytealg.LastIndexByteString", lastIdxByte)
	ip.reg("internal/bytealg.LastIndexByte", lastIdxByte)
	ip.reg("internal/bytealg.CountString", count)
	ip.reg("internal/bytealg.Count", count)
	ip.reg("internal/stringslite.Index", idx)
	ip.reg("internal/stringslite.IndexByte", idxByte)
	ip.reg("strings.Index", idx)
	ip.reg("strings.IndexByte", idxByte)
	ip.reg("strings.LastIndex", lastIdx)
	ip.reg("strings.LastIndexByte", lastIdxByte)
	ip.reg("bytes.Index", idx)
	ip.reg("bytes.IndexByte", idxByte)
	ip.reg("bytes.LastIndex", lastIdx)
	ip.reg("bytes.LastIndexByte", lastIdxByte)
	ip.reg("internal/bytealg.Equal", func(ip *Interp, fr *frame, a []Value) Value {
		return ip.bytesEq(sliceBytes(a[0]), sliceBytes(a[1]))
	})
	ip.reg("bytes.Equal", func(ip *Interp, fr *frame, a []Value) Value {
		return ip.bytesEq(sliceBytes(a[0]), sliceBytes(a[1]))
	})
	ip.reg("internal/bytealg.MakeNoZero", func(ip *Interp, fr *frame, a []Value) Value {
		n := ip.concretizeLen(a[0], "makeslice: len out of range")
		arr := make([]Value, n)
		for i := range arr {
			arr[i] = ip.ctx.BV(0, 8)
		}
		return Slice{Arr: &arr, Len: n, Cap: n}
	})
	ip.reg("internal/bytealg.Compare", func(ip *Interp, fr *frame, a []Value) Value {
		x, y := strOf(sliceBytes(a[0])), strOf(sliceBytes(a[1]))
		lt := ip.strLess(x, y)
		eq := ip.strEq(x, y)
		c := ip.ctx
		return c.Ite(eq, c.BV(0, 64), c.Ite(lt, c.BV(^uint64(0), 64), c.BV(1, 64)))
	})
	ip.reg("internal/abi.NoEscape", func(ip *Interp, fr *frame, a []Value) Value { return a[0] })
	ip.reg("(*strings.Builder).copyCheck", func(ip *Interp, fr *frame, a []Value) Value { return nil })
	ip.reg("(*strings.Builder).String", func(ip *Interp, fr *frame, a []Value) Value {
		b := a[0].(*Value)
		buf := (*b).(Struct)[1].(Slice) // struct { addr *Builder; buf []byte }
		if buf.Arr == nil {
			return mkStr(ip.ctx, "")
		}
		return strOf(sliceBytes(buf))
	})
	registerStdIntrinsics(ip)
}
