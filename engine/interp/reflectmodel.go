package interp

import (
	"fmt"
	"go/types"
	"strings"

	"verif/gosym/sym"
)

// reflect model for the kind-directed value printer (Dumper.ValueLit) and the
// reflect.Type adapter of github.com/octohelm/x/types.
//
// The interpreter's values carry their static go/types type wherever they are
// boxed into an interface, so reflect.ValueOf(x) is exactly (value, dynamic
// type) and every accessor below is a projection of the interpreter value
// directed by the go/types type: nothing is invented. A reflect.Value is the
// opaque *Native{*rvalue}; a reflect.Type is an interface value whose methods
// are native closures over the go/types type. Only the accessors listed here
// exist; any other method of reflect.Value / reflect.Type is "external function
// without body" -> INCONCLUSIVE.

func rvOf(a Value) *rvalue {
	n, ok := a.(*Native)
	if !ok {
		panic(unsupported(fmt.Sprintf("reflect model: value %T is not a modelled reflect.Value", a)))
	}
	rv, ok := n.V.(*rvalue)
	if !ok {
		panic(unsupported("reflect model: native object is not a reflect.Value"))
	}
	return rv
}

func mkRV(v Value, t types.Type) Value { return &Native{&rvalue{v: v, t: t}} }

// reflectKind: reflect.Kind of a go/types type (0 = Invalid).
func reflectKind(t types.Type) uint64 {
	if t == nil {
		return 0
	}
	switch u := t.Underlying().(type) {
	case *types.Basic:
		switch u.Kind() {
		case types.Bool, types.UntypedBool:
			return 1
		case types.Int, types.UntypedInt:
			return 2
		case types.Int8:
			return 3
		case types.Int16:
			return 4
		case types.Int32, types.UntypedRune:
			return 5
		case types.Int64:
			return 6
		case types.Uint:
			return 7
		case types.Uint8:
			return 8
		case types.Uint16:
			return 9
		case types.Uint32:
			return 10
		case types.Uint64:
			return 11
		case types.Uintptr:
			return 12
		case types.Float32:
			return 13
		case types.Float64, types.UntypedFloat:
			return 14
		case types.Complex64:
			return 15
		case types.Complex128:
			return 16
		case types.String, types.UntypedString:
			return 24
		case types.UnsafePointer:
			return 26
		}
	case *types.Array:
		return 17
	case *types.Chan:
		return 18
	case *types.Signature:
		return 19
	case *types.Interface:
		return 20
	case *types.Map:
		return 21
	case *types.Pointer:
		return 22
	case *types.Slice:
		return 23
	case *types.Struct:
		return 25
	}
	panic(unsupported("reflect model: kind of " + t.String()))
}

// reflectTypeString: (reflect.Type).String() - package-name qualified.
func reflectTypeString(t types.Type) string {
	return types.TypeString(t, func(p *types.Package) string { return p.Name() })
}

func (ip *Interp) mkRType(t types.Type) Value {
	t = types.Unalias(t)
	rt := &rtype{t}
	nf := func(name string, f func(ip *Interp, a []Value) Value) *NativeFunc {
		return &NativeFunc{Name: "reflect.Type." + name, Call: f}
	}
	str := func(s string) Value { return mkStr(ip.ctx, s) }
	m := map[string]*NativeFunc{}
	m["Kind"] = nf("Kind", func(ip *Interp, a []Value) Value { return ip.ctx.BV(reflectKind(t), 64) })
	m["Name"] = nf("Name", func(ip *Interp, a []Value) Value {
		switch x := t.(type) {
		case *types.Named:
			if x.TypeArgs().Len() > 0 {
				panic(unsupported("reflect model: Name of an instantiated generic type"))
			}
			return str(x.Obj().Name())
		case *types.Basic:
			return str(x.Name())
		}
		return str("")
	})
	m["PkgPath"] = nf("PkgPath", func(ip *Interp, a []Value) Value {
		if x, ok := t.(*types.Named); ok && x.Obj().Pkg() != nil {
			return str(x.Obj().Pkg().Path())
		}
		return str("")
	})
	m["String"] = nf("String", func(ip *Interp, a []Value) Value { return str(reflectTypeString(t)) })
	m["Elem"] = nf("Elem", func(ip *Interp, a []Value) Value {
		switch u := t.Underlying().(type) {
		case *types.Pointer:
			return ip.mkRType(u.Elem())
		case *types.Slice:
			return ip.mkRType(u.Elem())
		case *types.Array:
			return ip.mkRType(u.Elem())
		case *types.Map:
			return ip.mkRType(u.Elem())
		case *types.Chan:
			return ip.mkRType(u.Elem())
		}
		ip.rtPanic("reflect: Elem of invalid type " + reflectTypeString(t))
		return nil
	})
	m["Key"] = nf("Key", func(ip *Interp, a []Value) Value {
		if u, ok := t.Underlying().(*types.Map); ok {
			return ip.mkRType(u.Key())
		}
		ip.rtPanic("reflect: Key of non-map type " + reflectTypeString(t))
		return nil
	})
	m["Len"] = nf("Len", func(ip *Interp, a []Value) Value {
		if u, ok := t.Underlying().(*types.Array); ok {
			return ip.intC(u.Len())
		}
		ip.rtPanic("reflect: Len of non-array type " + reflectTypeString(t))
		return nil
	})
	m["NumField"] = nf("NumField", func(ip *Interp, a []Value) Value {
		if u, ok := t.Underlying().(*types.Struct); ok {
			return ip.intC(int64(u.NumFields()))
		}
		ip.rtPanic("reflect: NumField of non-struct type " + reflectTypeString(t))
		return nil
	})
	m["Field"] = nf("Field", func(ip *Interp, a []Value) Value {
		u, ok := t.Underlying().(*types.Struct)
		if !ok {
			ip.rtPanic("reflect: Field of non-struct type " + reflectTypeString(t))
		}
		i := int(ip.concretize(a[0].(*sym.Term)))
		if i < 0 || i >= u.NumFields() {
			ip.rtPanic("reflect: Field index out of bounds")
		}
		f := u.Field(i)
		pkgPath := ""
		if !f.Exported() && f.Pkg() != nil {
			pkgPath = f.Pkg().Path()
		}
		idx := []Value{ip.intC(int64(i))}
		// reflect.StructField{Name, PkgPath, Type, Tag, Offset, Index, Anonymous}
		return Struct{str(f.Name()), str(pkgPath), ip.mkRType(f.Type()), str(u.Tag(i)), ip.ctx.BV(0, 64),
			Slice{Arr: &idx, Len: 1, Cap: 1}, ip.ctx.Bool(f.Embedded())}
	})
	return Iface{T: rtypeMarker, V: &nativeObjMethods{methods: m, obj: rt}}
}

// rtypeOf extracts the go/types type from a modelled reflect.Type value.
func rtypeOf(v Value) types.Type {
	i := v.(Iface)
	switch x := i.V.(type) {
	case *nativeObjMethods:
		return x.obj.(*rtype).t
	case *Native:
		return x.V.(*rtype).t
	}
	panic(unsupported("reflect model: not a modelled reflect.Type"))
}

func (ip *Interp) regReflectModel() {
	bv := func(v Value) *sym.Term {
		t, ok := v.(*sym.Term)
		if !ok {
			panic(unsupported(fmt.Sprintf("reflect model: scalar expected, got %T", v)))
		}
		return t
	}
	ip.reg("(reflect.Value).Kind", func(ip *Interp, fr *frame, a []Value) Value {
		return ip.ctx.BV(reflectKind(rvOf(a[0]).t), 64)
	})
	ip.reg("(reflect.Value).IsValid", func(ip *Interp, fr *frame, a []Value) Value {
		return ip.ctx.Bool(rvOf(a[0]).t != nil)
	})
	ip.reg("(reflect.Value).CanInterface", func(ip *Interp, fr *frame, a []Value) Value {
		rv := rvOf(a[0])
		if rv.t == nil {
			ip.rtPanic("reflect: call of reflect.Value.CanInterface on zero Value")
		}
		return ip.ctx.Bool(!rv.unexported)
	})
	ip.reg("(reflect.Value).IsNil", func(ip *Interp, fr *frame, a []Value) Value {
		rv := rvOf(a[0])
		if rv.t == nil {
			ip.rtPanic("reflect: call of reflect.Value.IsNil on zero Value")
		}
		switch rv.t.Underlying().(type) {
		case *types.Pointer:
			switch p := rv.v.(type) {
			case *Value:
				return ip.ctx.Bool(p == nil)
			case nil:
				return ip.ctx.True
			}
			return ip.ctx.False
		case *types.Slice:
			s, _ := rv.v.(Slice)
			return ip.ctx.Bool(s.Arr == nil)
		case *types.Map:
			m, _ := rv.v.(*MapObj)
			return ip.ctx.Bool(m == nil)
		case *types.Interface:
			i, _ := rv.v.(Iface)
			return ip.ctx.Bool(i.T == nil)
		case *types.Signature, *types.Chan:
			return ip.ctx.Bool(rv.v == nil)
		}
		ip.rtPanic("reflect: call of reflect.Value.IsNil on " + reflectTypeString(rv.t) + " Value")
		return nil
	})
	ip.reg("(reflect.Value).Type", func(ip *Interp, fr *frame, a []Value) Value {
		rv := rvOf(a[0])
		if rv.t == nil {
			ip.rtPanic("reflect: call of reflect.Value.Type on zero Value")
		}
		return ip.mkRType(rv.t)
	})
	ip.reg("(reflect.Value).Elem", func(ip *Interp, fr *frame, a []Value) Value {
		rv := rvOf(a[0])
		if rv.t == nil {
			ip.rtPanic("reflect: call of reflect.Value.Elem on zero Value")
		}
		switch u := rv.t.Underlying().(type) {
		case *types.Pointer:
			p, _ := rv.v.(*Value)
			if p == nil {
				return &Native{&rvalue{}}
			}
			return &Native{&rvalue{v: *p, t: u.Elem(), addr: p}}
		case *types.Interface:
			i, _ := rv.v.(Iface)
			if i.T == nil {
				return &Native{&rvalue{}}
			}
			return mkRV(i.V, i.T)
		}
		ip.rtPanic("reflect: call of reflect.Value.Elem on " + reflectTypeString(rv.t) + " Value")
		return nil
	})
	ip.reg("(reflect.Value).Interface", func(ip *Interp, fr *frame, a []Value) Value {
		rv := rvOf(a[0])
		if rv.t == nil {
			ip.rtPanic("reflect: call of reflect.Value.Interface on zero Value")
		}
		if rv.unexported {
			ip.rtPanic("reflect.Value.Interface: cannot return value obtained from unexported field or method")
		}
		if _, isIface := rv.t.Underlying().(*types.Interface); isIface {
			if i, ok := rv.v.(Iface); ok {
				return i
			}
			return Iface{}
		}
		return Iface{T: rv.t, V: copyVal(rv.v)}
	})
	ip.reg("(reflect.Value).NumField", func(ip *Interp, fr *frame, a []Value) Value {
		rv := rvOf(a[0])
		if u, ok := underlyingOrNil(rv.t).(*types.Struct); ok {
			return ip.intC(int64(u.NumFields()))
		}
		ip.rtPanic("reflect: call of reflect.Value.NumField on non-struct Value")
		return nil
	})
	ip.reg("(reflect.Value).Field", func(ip *Interp, fr *frame, a []Value) Value {
		rv := rvOf(a[0])
		u, ok := underlyingOrNil(rv.t).(*types.Struct)
		if !ok {
			ip.rtPanic("reflect: call of reflect.Value.Field on non-struct Value")
		}
		i := int(ip.concretize(bv(a[1])))
		if i < 0 || i >= u.NumFields() {
			ip.rtPanic("reflect: Field index out of range")
		}
		s, ok := rv.v.(Struct)
		if !ok {
			panic(unsupported(fmt.Sprintf("reflect model: struct value is %T", rv.v)))
		}
		return &Native{&rvalue{v: s[i], t: u.Field(i).Type(), unexported: rv.unexported || !u.Field(i).Exported()}}
	})
	ip.reg("(reflect.Value).Len", func(ip *Interp, fr *frame, a []Value) Value {
		rv := rvOf(a[0])
		switch u := underlyingOrNil(rv.t).(type) {
		case *types.Slice:
			s, _ := rv.v.(Slice)
			return ip.intC(int64(s.Len))
		case *types.Array:
			return ip.intC(u.Len())
		case *types.Map:
			m, _ := rv.v.(*MapObj)
			return ip.intC(int64(len(ip.mapLive(m))))
		case *types.Basic:
			if s, ok := rv.v.(Str); ok {
				return ip.intC(int64(s.Len()))
			}
		}
		ip.rtPanic("reflect: call of reflect.Value.Len on a Value without length")
		return nil
	})
	ip.reg("(reflect.Value).Index", func(ip *Interp, fr *frame, a []Value) Value {
		rv := rvOf(a[0])
		i := int(ip.concretize(bv(a[1])))
		switch u := underlyingOrNil(rv.t).(type) {
		case *types.Slice:
			s, _ := rv.v.(Slice)
			if i < 0 || i >= s.Len {
				ip.rtPanic("reflect: slice index out of range")
			}
			return &Native{&rvalue{v: (*s.Arr)[s.Off+i], t: u.Elem(), unexported: rv.unexported}}
		case *types.Array:
			arr, _ := rv.v.(Array)
			if i < 0 || i >= len(arr) {
				ip.rtPanic("reflect: array index out of range")
			}
			return &Native{&rvalue{v: arr[i], t: u.Elem(), unexported: rv.unexported}}
		}
		ip.rtPanic("reflect: call of reflect.Value.Index on a Value that cannot be indexed")
		return nil
	})
	// MapKeys: "in unspecified order" - the order is explored like a range over the map
	ip.reg("(reflect.Value).MapKeys", func(ip *Interp, fr *frame, a []Value) Value {
		rv := rvOf(a[0])
		u, ok := underlyingOrNil(rv.t).(*types.Map)
		if !ok {
			ip.rtPanic("reflect: call of reflect.Value.MapKeys on non-map Value")
		}
		m, _ := rv.v.(*MapObj)
		var out []Value
		if m != nil {
			it := ip.rangeIter(rv.t, m).(*mapIter)
			for _, e := range it.order {
				if !e.Del {
					out = append(out, &Native{&rvalue{v: e.K, t: u.Key(), unexported: rv.unexported}})
				}
			}
		}
		return Slice{Arr: &out, Len: len(out), Cap: len(out)}
	})
	ip.reg("(reflect.Value).MapIndex", func(ip *Interp, fr *frame, a []Value) Value {
		rv := rvOf(a[0])
		u, ok := underlyingOrNil(rv.t).(*types.Map)
		if !ok {
			ip.rtPanic("reflect: call of reflect.Value.MapIndex on non-map Value")
		}
		m, _ := rv.v.(*MapObj)
		k := rvOf(a[1])
		if m == nil {
			return &Native{&rvalue{}}
		}
		e := ip.mapFind(m, k.v)
		if e == nil {
			return &Native{&rvalue{}}
		}
		return &Native{&rvalue{v: copyVal(e.V), t: u.Elem(), unexported: rv.unexported}}
	})
	intOf := func(ip *Interp, a []Value, signed bool, what string) Value {
		rv := rvOf(a[0])
		b, ok := underlyingOrNil(rv.t).(*types.Basic)
		if !ok || b.Info()&types.IsInteger == 0 || (b.Info()&types.IsUnsigned != 0) == signed {
			ip.rtPanic("reflect: call of reflect.Value." + what + " on " + reflectTypeString(rv.t) + " Value")
		}
		t := bv(rv.v)
		if t.W == 64 {
			return t
		}
		if signed {
			return ip.ctx.Sext(t, 64)
		}
		return ip.ctx.Zext(t, 64)
	}
	ip.reg("(reflect.Value).Int", func(ip *Interp, fr *frame, a []Value) Value { return intOf(ip, a, true, "Int") })
	ip.reg("(reflect.Value).Uint", func(ip *Interp, fr *frame, a []Value) Value { return intOf(ip, a, false, "Uint") })
	ip.reg("(reflect.Value).Bool", func(ip *Interp, fr *frame, a []Value) Value {
		rv := rvOf(a[0])
		if reflectKind(rv.t) != 1 {
			ip.rtPanic("reflect: call of reflect.Value.Bool on non-bool Value")
		}
		return bv(rv.v)
	})
	ip.reg("(reflect.Value).Float", func(ip *Interp, fr *frame, a []Value) Value {
		rv := rvOf(a[0])
		if f, ok := rv.v.(Float); ok {
			return f
		}
		panic(unsupported("reflect model: Float of a non-constant value"))
	})
	ip.reg("(reflect.Value).Bytes", func(ip *Interp, fr *frame, a []Value) Value {
		rv := rvOf(a[0])
		if u, ok := underlyingOrNil(rv.t).(*types.Slice); ok && reflectKind(u.Elem()) == 8 {
			return rv.v
		}
		ip.rtPanic("reflect: call of reflect.Value.Bytes on a Value that is not a byte slice")
		return nil
	})
	ip.reg("(reflect.Value).String", func(ip *Interp, fr *frame, a []Value) Value {
		rv := rvOf(a[0])
		if rv.t == nil {
			return mkStr(ip.ctx, "<invalid Value>")
		}
		if s, ok := rv.v.(Str); ok && reflectKind(rv.t) == 24 {
			return s
		}
		return mkStr(ip.ctx, "<"+reflectTypeString(rv.t)+" Value>")
	})
}

func underlyingOrNil(t types.Type) types.Type {
	if t == nil {
		return nil
	}
	return t.Underlying()
}

var _ = strings.Contains
