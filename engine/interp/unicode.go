package interp

import (
	"fmt"
	"strings"
	"unicode"

	"verif/gosym/sym"
)

// Unicode class predicates and case mappings are exact intrinsics: one SMT
// define-fun per function, generated from the toolchain's own tables (the engine
// is built with the same Go toolchain the repository uses), plus a native
// evaluator that simply calls the real function. `gosym selftest` compares the
// SMT definition with the real function.

type rng struct{ lo, hi, stride uint32 }

func tableRanges(tabs ...*unicode.RangeTable) []rng {
	var out []rng
	for _, t := range tabs {
		for _, r := range t.R16 {
			out = append(out, rng{uint32(r.Lo), uint32(r.Hi), uint32(r.Stride)})
		}
		for _, r := range t.R32 {
			out = append(out, rng{r.Lo, r.Hi, r.Stride})
		}
	}
	return out
}

// predRanges computes exact ranges of a predicate by scanning all runes
// (independent of how the unicode package implements it).
func predRanges(f func(rune) bool) []rng {
	var out []rng
	in := false
	var lo uint32
	for r := rune(0); r <= unicode.MaxRune+1; r++ {
		v := r <= unicode.MaxRune && f(r)
		if v && !in {
			in, lo = true, uint32(r)
		} else if !v && in {
			in = false
			out = append(out, rng{lo, uint32(r - 1), 1})
		}
	}
	return out
}

// smtPred prints a balanced decision tree over the sorted, disjoint ranges.
func smtPred(name string, rs []rng) string {
	var build func(rs []rng) string
	build = func(rs []rng) string {
		if len(rs) == 0 {
			return "false"
		}
		if len(rs) == 1 {
			x := rs[0]
			if x.lo == x.hi {
				return fmt.Sprintf("(= r #x%08x)", x.lo)
			}
			return fmt.Sprintf("(and (bvule #x%08x r) (bvule r #x%08x))", x.lo, x.hi)
		}
		m := len(rs) / 2
		return fmt.Sprintf("(ite (bvult r #x%08x) %s %s)", rs[m].lo, build(rs[:m]), build(rs[m:]))
	}
	return fmt.Sprintf("(define-fun %s ((r (_ BitVec 32))) Bool %s)", name, build(rs))
}

type mapRun struct {
	lo, hi uint32
	delta  int32 // result = r + delta
}

// mapRuns computes exact runs of constant delta for a rune→rune mapping.
func mapRuns(f func(rune) rune) []mapRun {
	var out []mapRun
	var cur *mapRun
	for r := rune(0); r <= unicode.MaxRune; r++ {
		d := int32(f(r) - r)
		if d == 0 {
			cur = nil
			continue
		}
		if cur != nil && cur.delta == d && cur.hi+1 == uint32(r) {
			cur.hi = uint32(r)
			continue
		}
		out = append(out, mapRun{uint32(r), uint32(r), d})
		cur = &out[len(out)-1]
	}
	return out
}

// smtMap prints a balanced decision tree over the sorted, disjoint runs.
func smtMap(name string, runs []mapRun) string {
	var build func(rs []mapRun) string
	build = func(rs []mapRun) string {
		if len(rs) == 0 {
			return "r"
		}
		if len(rs) == 1 {
			x := rs[0]
			if x.lo == x.hi {
				return fmt.Sprintf("(ite (= r #x%08x) #x%08x r)", x.lo, uint32(int32(x.lo)+x.delta))
			}
			return fmt.Sprintf("(ite (and (bvule #x%08x r) (bvule r #x%08x)) (bvadd r #x%08x) r)", x.lo, x.hi, uint32(x.delta))
		}
		m := len(rs) / 2
		return fmt.Sprintf("(ite (bvult r #x%08x) %s %s)", rs[m].lo, build(rs[:m]), build(rs[m:]))
	}
	return fmt.Sprintf("(define-fun %s ((r (_ BitVec 32))) (_ BitVec 32) %s)", name, build(runs))
}

var UnicodePreds = map[string]func(rune) bool{
	"unicode.IsLower":   unicode.IsLower,
	"unicode.IsUpper":   unicode.IsUpper,
	"unicode.IsDigit":   unicode.IsDigit,
	"unicode.IsLetter":  unicode.IsLetter,
	"unicode.IsGraphic": unicode.IsGraphic,
	"unicode.IsSpace":   unicode.IsSpace,
	"unicode.IsTitle":   unicode.IsTitle,
	"unicode.IsNumber":  unicode.IsNumber,
	"unicode.IsPunct":   unicode.IsPunct,
	"unicode.IsPrint":   unicode.IsPrint,
	"unicode.IsControl": unicode.IsControl,
}

var UnicodeMaps = map[string]func(rune) rune{
	"unicode.ToLower":    unicode.ToLower,
	"unicode.ToUpper":    unicode.ToUpper,
	"unicode.ToTitle":    unicode.ToTitle,
	"unicode.SimpleFold": unicode.SimpleFold,
}

func smtName(goName string) string {
	return "u_" + strings.ReplaceAll(goName[len("unicode."):], ".", "_")
}

var (
	unicodeDefs = map[string]string{}
)

// Range-restricted variants: when the engine's interval analysis shows the
// argument is ≤ limit, the definition clipped to [0, limit] is used (exact on
// that domain and much smaller for the solver).
var variantLimits = []struct {
	suffix string
	limit  uint32
}{{"_l1", 0xFF}, {"_w2", 0x7FF}, {"_w3", 0xFFFF}, {"", 0xFFFFFFFF}}

func clipRanges(rs []rng, limit uint32) []rng {
	var out []rng
	for _, r := range rs {
		if r.lo > limit {
			continue
		}
		if r.hi > limit {
			r.hi = limit
		}
		out = append(out, r)
	}
	return out
}

func clipRuns(rs []mapRun, limit uint32) []mapRun {
	var out []mapRun
	for _, r := range rs {
		if r.lo > limit {
			continue
		}
		if r.hi > limit {
			r.hi = limit
		}
		out = append(out, r)
	}
	return out
}

func init() {
	for name, f := range UnicodePreds {
		rs := predRanges(f)
		for _, v := range variantLimits {
			unicodeDefs[name+v.suffix] = smtPred(smtName(name)+v.suffix, clipRanges(rs, v.limit))
		}
	}
	for name, f := range UnicodeMaps {
		rs := mapRuns(f)
		for _, v := range variantLimits {
			unicodeDefs[name+v.suffix] = smtMap(smtName(name)+v.suffix, clipRuns(rs, v.limit))
		}
	}
}

func pickVariant(ip *Interp, t *sym.Term) string {
	_, hi := ip.ctx.URange(t)
	for _, v := range variantLimits {
		if hi <= uint64(v.limit) {
			return v.suffix
		}
	}
	return ""
}

func registerUnicode(ip *Interp) {
	for name, f := range UnicodePreds {
		f := f
		sn := smtName(name)
		for _, v := range variantLimits {
			ip.ctx.Register(&sym.FuncDef{Name: sn + v.suffix, ArgW: []int{32}, ResW: 0, SMT: unicodeDefs[name+v.suffix],
				Native: func(a []uint64) uint64 {
					if f(rune(int32(uint32(a[0])))) {
						return 1
					}
					return 0
				}})
		}
		ip.intrinsics[name] = func(ip *Interp, fr *frame, a []Value) Value {
			t := a[0].(*sym.Term)
			return ip.ctx.App(sn+pickVariant(ip, t), t)
		}
	}
	for name, f := range UnicodeMaps {
		f := f
		sn := smtName(name)
		for _, v := range variantLimits {
			ip.ctx.Register(&sym.FuncDef{Name: sn + v.suffix, ArgW: []int{32}, ResW: 32, SMT: unicodeDefs[name+v.suffix],
				Native: func(a []uint64) uint64 {
					return uint64(uint32(f(rune(int32(uint32(a[0]))))))
				}})
		}
		ip.intrinsics[name] = func(ip *Interp, fr *frame, a []Value) Value {
			t := a[0].(*sym.Term)
			return ip.ctx.App(sn+pickVariant(ip, t), t)
		}
	}
}

type Variant struct {
	Suffix string
	Limit  uint32
}

func VariantLimits() []Variant {
	var out []Variant
	for _, v := range variantLimits {
		out = append(out, Variant{v.suffix, v.limit})
	}
	return out
}

// UnicodeDef returns the SMT name and define-fun text of a variant.
func UnicodeDef(goName, suffix string) (string, string) {
	return smtName(goName) + suffix, unicodeDefs[goName+suffix]
}
