package interp

import (
	"fmt"
	"regexp"
	"regexp/syntax"
	"unicode"

	"verif/gosym/sym"
)

// Exact bounded encoding of Go regular expressions (package regexp, leftmost-
// first / Perl semantics) over a subject with a concrete number of runes and
// symbolic rune values. The program is the one Go itself compiles
// (regexp/syntax Parse -> Simplify -> Compile, from the toolchain the
// repository uses).
//
//	succ(pc, i)  Bool term: from instruction pc at rune position i a match can be completed
//
// MatchString is OR_p succ(start, p) (no forking). FindStringSubmatch(Index)
// forks over the leftmost feasible start and then walks the priority path,
// forking at each Alt on succ(first arm), so that submatch boundaries are
// concrete on every path.

type rxObj struct {
	pat  string
	prog *syntax.Prog
	ncap int
}

func compileRx(pat string) (*rxObj, error) {
	re, err := syntax.Parse(pat, syntax.Perl)
	if err != nil {
		return nil, err
	}
	ncap := re.MaxCap()
	re = re.Simplify()
	prog, err := syntax.Compile(re)
	if err != nil {
		return nil, err
	}
	return &rxObj{pat: pat, prog: prog, ncap: ncap}, nil
}

type rxRun struct {
	ip    *Interp
	rx    *rxObj
	runes []*sym.Term // 32-bit
	memo  map[[2]int]*sym.Term
	busy  map[[2]int]bool
}

func (r *rxRun) isWord(t *sym.Term) *sym.Term {
	c := r.ip.ctx
	k := func(v rune) *sym.Term { return c.BV(uint64(v), 32) }
	rng := func(lo, hi rune) *sym.Term {
		return c.And(c.Cmp(sym.OpUle, k(lo), t), c.Cmp(sym.OpUle, t, k(hi)))
	}
	return c.OrN(rng('0', '9'), rng('A', 'Z'), rng('a', 'z'), c.Eq(t, k('_')))
}

func (r *rxRun) emptyCond(op syntax.EmptyOp, i int) *sym.Term {
	c := r.ip.ctx
	n := len(r.runes)
	res := c.True
	nl := func(j int) *sym.Term { return c.Eq(r.runes[j], c.BV('\n', 32)) }
	if op&syntax.EmptyBeginLine != 0 {
		if i > 0 {
			res = c.And(res, nl(i-1))
		}
	}
	if op&syntax.EmptyEndLine != 0 {
		if i < n {
			res = c.And(res, nl(i))
		}
	}
	if op&syntax.EmptyBeginText != 0 && i != 0 {
		return c.False
	}
	if op&syntax.EmptyEndText != 0 && i != n {
		return c.False
	}
	if op&(syntax.EmptyWordBoundary|syntax.EmptyNoWordBoundary) != 0 {
		w1, w2 := c.False, c.False
		if i > 0 {
			w1 = r.isWord(r.runes[i-1])
		}
		if i < n {
			w2 = r.isWord(r.runes[i])
		}
		boundary := c.Not(c.Eq(w1, w2))
		if op&syntax.EmptyWordBoundary != 0 {
			res = c.And(res, boundary)
		}
		if op&syntax.EmptyNoWordBoundary != 0 {
			res = c.And(res, c.Not(boundary))
		}
	}
	return res
}

func (r *rxRun) matchRune(inst *syntax.Inst, t *sym.Term) *sym.Term {
	c := r.ip.ctx
	k := func(v rune) *sym.Term { return c.BV(uint64(uint32(v)), 32) }
	switch inst.Op {
	case syntax.InstRuneAny:
		return c.True
	case syntax.InstRuneAnyNotNL:
		return c.Not(c.Eq(t, k('\n')))
	}
	rs := inst.Rune
	if len(rs) == 1 {
		r0 := rs[0]
		res := c.Eq(t, k(r0))
		if syntax.Flags(inst.Arg)&syntax.FoldCase != 0 {
			for r1 := unicode.SimpleFold(r0); r1 != r0; r1 = unicode.SimpleFold(r1) {
				res = c.Or(res, c.Eq(t, k(r1)))
			}
		}
		return res
	}
	res := c.False
	for j := 0; j+1 < len(rs); j += 2 {
		lo, hi := rs[j], rs[j+1]
		if lo == hi {
			res = c.Or(res, c.Eq(t, k(lo)))
		} else {
			res = c.Or(res, c.And(c.Cmp(sym.OpUle, k(lo), t), c.Cmp(sym.OpUle, t, k(hi))))
		}
	}
	return res
}

func (r *rxRun) succ(pc, i int) *sym.Term {
	key := [2]int{pc, i}
	if t, ok := r.memo[key]; ok {
		return t
	}
	if r.busy[key] {
		panic(unsupported("regexp with an empty-width cycle: " + r.rx.pat))
	}
	r.busy[key] = true
	c := r.ip.ctx
	inst := &r.rx.prog.Inst[pc]
	var t *sym.Term
	switch inst.Op {
	case syntax.InstMatch:
		t = c.True
	case syntax.InstFail:
		t = c.False
	case syntax.InstNop, syntax.InstCapture:
		t = r.succ(int(inst.Out), i)
	case syntax.InstAlt, syntax.InstAltMatch:
		t = c.Or(r.succ(int(inst.Out), i), r.succ(int(inst.Arg), i))
	case syntax.InstEmptyWidth:
		cond := r.emptyCond(syntax.EmptyOp(inst.Arg), i)
		if cond == c.False {
			t = c.False
		} else {
			t = c.And(cond, r.succ(int(inst.Out), i))
		}
	case syntax.InstRune, syntax.InstRune1, syntax.InstRuneAny, syntax.InstRuneAnyNotNL:
		if i >= len(r.runes) {
			t = c.False
		} else {
			m := r.matchRune(inst, r.runes[i])
			if m == c.False {
				t = c.False
			} else {
				t = c.And(m, r.succ(int(inst.Out), i+1))
			}
		}
	default:
		panic(unsupported(fmt.Sprintf("regexp instruction %v", inst.Op)))
	}
	delete(r.busy, key)
	r.memo[key] = t
	return t
}

// decodeSubject splits the subject into runes (forking on the UTF-8 shape) and
// returns the rune terms and their byte offsets (offs[len] = len(bytes)).
func (ip *Interp) decodeSubject(s Str) ([]*sym.Term, []int) {
	var runes []*sym.Term
	var offs []int
	for pos := 0; pos < len(s.B); {
		r, sz := ip.decodeRune(s, pos)
		runes = append(runes, r)
		offs = append(offs, pos)
		pos += sz
	}
	offs = append(offs, len(s.B))
	return runes, offs
}

func (ip *Interp) newRxRun(rx *rxObj, s Str) (*rxRun, []int) {
	runes, offs := ip.decodeSubject(s)
	return &rxRun{ip: ip, rx: rx, runes: runes, memo: map[[2]int]*sym.Term{}, busy: map[[2]int]bool{}}, offs
}

func (ip *Interp) rxMatch(rx *rxObj, s Str) *sym.Term {
	run, _ := ip.newRxRun(rx, s)
	res := ip.ctx.False
	for p := 0; p <= len(run.runes); p++ {
		res = ip.ctx.Or(res, run.succ(rx.prog.Start, p))
	}
	return res
}

// rxFind returns nil if there is no match, else the 2*(ncap+1) byte offsets
// (-1 for unset groups) of the leftmost-first match. Forks.
func (ip *Interp) rxFind(rx *rxObj, s Str) []int {
	run, offs := ip.newRxRun(rx, s)
	return ip.rxFindFrom(run, offs, 0)
}

// rxFindFrom searches for the leftmost-first match starting at rune position >= from.
func (ip *Interp) rxFindFrom(run *rxRun, offs []int, from int) []int {
	rx := run.rx
	n := len(run.runes)
	start := -1
	for p := from; p <= n; p++ {
		if ip.decide(run.succ(rx.prog.Start, p)) {
			start = p
			break
		}
	}
	if start < 0 {
		return nil
	}
	caps := make([]int, 2*(rx.ncap+1))
	for i := range caps {
		caps[i] = -1
	}
	pc, i := rx.prog.Start, start
	caps[0] = offs[start]
	for steps := 0; ; steps++ {
		if steps > 100000 {
			panic(unsupported("regexp walk did not terminate"))
		}
		inst := &rx.prog.Inst[pc]
		switch inst.Op {
		case syntax.InstMatch:
			caps[1] = offs[i]
			return caps
		case syntax.InstNop:
			pc = int(inst.Out)
		case syntax.InstCapture:
			if int(inst.Arg) < len(caps) {
				caps[inst.Arg] = offs[i]
			}
			pc = int(inst.Out)
		case syntax.InstAlt, syntax.InstAltMatch:
			if ip.decide(run.succ(int(inst.Out), i)) {
				pc = int(inst.Out)
			} else {
				pc = int(inst.Arg)
			}
		case syntax.InstEmptyWidth:
			pc = int(inst.Out)
		case syntax.InstRune, syntax.InstRune1, syntax.InstRuneAny, syntax.InstRuneAnyNotNL:
			i++
			pc = int(inst.Out)
		default:
			panic(unsupported("regexp walk reached " + inst.Op.String()))
		}
	}
}

func registerRegexp(ip *Interp) {
	rxOf := func(v Value) *rxObj {
		n, ok := v.(*Native)
		if !ok {
			panic(unsupported("regexp method on a value that was not compiled by the engine"))
		}
		return n.V.(*rxObj)
	}
	compile := func(ip *Interp, fr *frame, a []Value, must bool) Value {
		pat, ok := a[0].(Str).Concrete()
		if !ok {
			panic(unsupported("regexp.Compile with symbolic pattern"))
		}
		rx, err := compileRx(pat)
		if err != nil {
			if must {
				panic(&goPanic{val: Iface{T: rtErrorType, V: mkStr(ip.ctx, "regexp: Compile: "+err.Error())}, msg: "regexp: Compile(" + pat + "): " + err.Error()})
			}
			return Tuple{(*Value)(nil), ip.newError(mkStr(ip.ctx, err.Error()))}
		}
		if must {
			return &Native{rx}
		}
		return Tuple{&Native{rx}, Iface{}}
	}
	ip.reg("regexp.MustCompile", func(ip *Interp, fr *frame, a []Value) Value { return compile(ip, fr, a, true) })
	ip.reg("regexp.Compile", func(ip *Interp, fr *frame, a []Value) Value { return compile(ip, fr, a, false) })
	ip.reg("(*regexp.Regexp).MatchString", func(ip *Interp, fr *frame, a []Value) Value {
		return ip.rxMatch(rxOf(a[0]), a[1].(Str))
	})
	ip.reg("(*regexp.Regexp).FindStringSubmatchIndex", func(ip *Interp, fr *frame, a []Value) Value {
		caps := ip.rxFind(rxOf(a[0]), a[1].(Str))
		if caps == nil {
			return Slice{}
		}
		arr := make([]Value, len(caps))
		for i, c := range caps {
			arr[i] = ip.intC(int64(c))
		}
		return Slice{Arr: &arr, Len: len(arr), Cap: len(arr)}
	})
	ip.reg("(*regexp.Regexp).FindStringSubmatch", func(ip *Interp, fr *frame, a []Value) Value {
		s := a[1].(Str)
		caps := ip.rxFind(rxOf(a[0]), s)
		if caps == nil {
			return Slice{}
		}
		arr := make([]Value, len(caps)/2)
		for i := range arr {
			if caps[2*i] >= 0 && caps[2*i+1] >= 0 {
				arr[i] = strOf(s.B[caps[2*i]:caps[2*i+1]:caps[2*i+1]])
			} else {
				arr[i] = mkStr(ip.ctx, "")
			}
		}
		return Slice{Arr: &arr, Len: len(arr), Cap: len(arr)}
	})
	// ReplaceAllString: exact (the loop of regexp.(*Regexp).replaceAll over the
	// encoded matcher; the replacement template is parsed by Go's own Expand)
	ip.reg("(*regexp.Regexp).ReplaceAllString", func(ip *Interp, fr *frame, a []Value) Value {
		repl, ok := a[2].(Str).Concrete()
		if !ok {
			panic(unsupported("ReplaceAllString with a symbolic replacement"))
		}
		return ip.rxReplaceAll(rxOf(a[0]), a[1].(Str), repl)
	})
	ip.reg("(*regexp.Regexp).String", func(ip *Interp, fr *frame, a []Value) Value {
		return mkStr(ip.ctx, rxOf(a[0]).pat)
	})
}

// RxEvalConcrete runs the encoding on a concrete subject (selftest: compared
// with the real regexp package).
func (ip *Interp) RxEvalConcrete(pat, subject string) (matched bool, caps []int, err error) {
	rx, err := compileRx(pat)
	if err != nil {
		return false, nil, err
	}
	defer func() {
		if r := recover(); r != nil {
			err = fmt.Errorf("%v", r)
		}
	}()
	ip.resetPath(Work{})
	caps = ip.rxFind(rx, mkStr(ip.ctx, subject))
	m := ip.rxMatch(rx, mkStr(ip.ctx, subject))
	if !m.IsConst() {
		return false, nil, fmt.Errorf("non-constant match on concrete subject")
	}
	if (m.Val != 0) != (caps != nil) {
		return false, nil, fmt.Errorf("MatchString and FindStringSubmatchIndex disagree")
	}
	return caps != nil, caps, nil
}

// templatePart is a piece of a replacement template: literal text or a group reference.
type templatePart struct {
	lit   string
	group int // -1 for literal
}

// parseTemplate obtains the structure of a replacement template from Go's own
// (*Regexp).Expand: every group is given a unique marker as its text, and the
// expansion is split at the markers.
func parseTemplate(rx *rxObj, template string) []templatePart {
	re := regexp.MustCompile(rx.pat)
	n := re.NumSubexp() + 1
	var src []byte
	match := make([]int, 2*n)
	for g := 0; g < n; g++ {
		match[2*g] = len(src)
		src = append(src, 0xF5, byte(0xF8+g/64), byte(0x80+g%64), 0xF5) // bytes that cannot occur in a template literal of the repository
		match[2*g+1] = len(src)
	}
	out := re.Expand(nil, []byte(template), src, match)
	var parts []templatePart
	lit := []byte{}
	for i := 0; i < len(out); {
		if out[i] == 0xF5 && i+3 < len(out) && out[i+3] == 0xF5 {
			if len(lit) > 0 {
				parts = append(parts, templatePart{lit: string(lit), group: -1})
				lit = lit[:0]
			}
			parts = append(parts, templatePart{group: int(out[i+1]-0xF8)*64 + int(out[i+2]-0x80)})
			i += 4
			continue
		}
		lit = append(lit, out[i])
		i++
	}
	if len(lit) > 0 {
		parts = append(parts, templatePart{lit: string(lit), group: -1})
	}
	return parts
}

func (ip *Interp) rxReplaceAll(rx *rxObj, s Str, template string) Str {
	parts := parseTemplate(rx, template)
	run, offs := ip.newRxRun(rx, s)
	n := len(run.runes)
	var out []*sym.Term
	lastMatchEnd := 0 // byte offset
	searchPos := 0    // rune index
	for searchPos <= n {
		caps := ip.rxFindFrom(run, offs, searchPos)
		if caps == nil {
			break
		}
		out = append(out, s.B[lastMatchEnd:caps[0]]...)
		// not for a match of the empty string immediately after another match
		if caps[1] > lastMatchEnd || caps[0] == 0 {
			for _, p := range parts {
				if p.group < 0 {
					out = append(out, mkStr(ip.ctx, p.lit).B...)
				} else if 2*p.group+1 < len(caps) && caps[2*p.group] >= 0 {
					out = append(out, s.B[caps[2*p.group]:caps[2*p.group+1]]...)
				}
			}
		}
		lastMatchEnd = caps[1]
		// advance past this match; always advance at least one rune
		endRune := searchPos
		for endRune <= n && offs[endRune] < caps[1] {
			endRune++
		}
		switch {
		case searchPos < n && offs[searchPos+1] > caps[1]:
			searchPos++
		case searchPos >= n && offs[n] >= caps[1]:
			searchPos++
		default:
			searchPos = endRune
		}
	}
	out = append(out, s.B[lastMatchEnd:]...)
	return strOf(out)
}
