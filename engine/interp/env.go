package interp

import (
	"crypto/sha256"
	"encoding/base64"
	"fmt"
	"go/types"
	"path/filepath"
	"reflect"
	"sort"
	"strings"

	"golang.org/x/tools/go/ssa"

	"verif/gosym/sym"
)

// Environment models for the orchestration harness: context, errors, slog,
// the five reflect calls of (*gengoCtx).New, go/parser + formatter stubs.

func (ip *Interp) namedType(pkg, name string) types.Type {
	p := ip.Prog.ImportedPackage(pkg)
	if p == nil {
		panic(unsupported("package not loaded: " + pkg))
	}
	t := p.Type(name)
	if t == nil {
		panic(unsupported("type not found: " + pkg + "." + name))
	}
	return t.Type()
}

type rvalue struct { // reflect.Value model
	v    Value
	t    types.Type
	addr *Value // set when the value was obtained through Elem() of a pointer (addressable)
	// obtained through an unexported struct field: Interface() panics, CanInterface() is false
	unexported bool
}

type rtype struct{ t types.Type }

// unwrapAll returns the errors e wraps (Unwrap() error or Unwrap() []error).
func (ip *Interp) unwrapAll(e Iface) []Iface {
	if e.T == nil {
		return nil
	}
	m := ip.findMethod(e.T, "Unwrap")
	if m == nil || m.Signature.Params().Len() != 0 || m.Signature.Results().Len() != 1 {
		return nil
	}
	r := ip.call(ip.curFrame, m, []Value{e.V})
	if sl, isSlice := r.(Slice); isSlice {
		var out []Iface
		for i := 0; i < sl.Len; i++ {
			if x, ok := (*sl.at(i)).(Iface); ok && x.T != nil {
				out = append(out, x)
			}
		}
		return out
	}
	if ri, ok := r.(Iface); ok && ri.T != nil {
		return []Iface{ri}
	}
	return nil
}

// errIs implements errors.Is (depth-first over the tree of wrapped errors).
func (ip *Interp) errIs(fr *frame, err, target Iface, depth int) bool {
	if depth > 50 {
		panic(unsupported("errors.Is: chain too long"))
	}
	if err.T == nil {
		return target.T == nil
	}
	if target.T != nil && types.Identical(err.T, target.T) && types.Comparable(err.T) {
		if ip.truth(ip.eq(err.T, err.V, target.V)) {
			return true
		}
	}
	if m := ip.findMethod(err.T, "Is"); m != nil && m.Signature.Params().Len() == 1 {
		if ip.truth(ip.call(fr, m, []Value{err.V, target})) {
			return true
		}
	}
	for _, next := range ip.unwrapAll(err) {
		if ip.errIs(fr, next, target, depth+1) {
			return true
		}
	}
	return false
}

func (ip *Interp) errAs(err Iface, want types.Type, target Value, depth int) bool {
	if depth > 50 || err.T == nil {
		return false
	}
	match := false
	var val Value
	if wi, isI := want.Underlying().(*types.Interface); isI {
		match, val = types.Implements(err.T, wi), Value(err)
	} else {
		match, val = types.Identical(err.T, want), err.V
	}
	if match {
		ip.store(want, target, val)
		return true
	}
	for _, next := range ip.unwrapAll(err) {
		if ip.errAs(next, want, target, depth+1) {
			return true
		}
	}
	return false
}

func registerEnv(ip *Interp) {
	// ---- context
	ip.reg("context.WithValue", func(ip *Interp, fr *frame, a []Value) Value {
		if a[0].(Iface).T == nil {
			ip.rtPanic("cannot create context from nil parent")
		}
		t := ip.namedType("context", "valueCtx")
		p := new(Value)
		*p = Struct{a[0], a[1], a[2]}
		return Iface{T: types.NewPointer(t), V: p}
	})
	// ---- errors
	ip.reg("errors.Is", func(ip *Interp, fr *frame, a []Value) Value {
		return ip.ctx.Bool(ip.errIs(fr, a[0].(Iface), a[1].(Iface), 0))
	})
	ip.reg("errors.As", func(ip *Interp, fr *frame, a []Value) Value {
		err, target := a[0].(Iface), a[1].(Iface)
		if target.T == nil {
			ip.rtPanic("errors: target cannot be nil")
		}
		pt, ok := target.T.Underlying().(*types.Pointer)
		if !ok {
			ip.rtPanic("errors: target must be a non-nil pointer")
		}
		return ip.ctx.Bool(ip.errAs(err, pt.Elem(), target.V, 0))
	})
	// ---- log/slog attribute constructors (values only travel to the stubbed logger)
	for _, n := range []string{"log/slog.String", "log/slog.Bool", "log/slog.Any", "log/slog.Int", "log/slog.Duration"} {
		n := n
		ip.regStub(n, func(ip *Interp, fr *frame, a []Value) Value {
			short := n[len("log/slog."):]
			f := ip.Prog.ImportedPackage("log/slog").Func(short)
			return ip.zero(f.Signature.Results().At(0).Type())
		})
	}
	// the default logger made by gengo.NewContext (the harness replaces it before use)
	for _, n := range []string{"log/slog.New", "log/slog.NewTextHandler"} {
		n := n
		ip.regStub(n, func(ip *Interp, fr *frame, a []Value) Value {
			f := ip.lookupFunc(n)
			return ip.zero(f.Signature.Results().At(0).Type())
		})
	}
	for _, n := range []string{"time.Now", "time.Since"} {
		n := n
		ip.regStub(n, func(ip *Interp, fr *frame, a []Value) Value {
			f := ip.lookupFunc(n)
			return ip.zero(f.Signature.Results().At(0).Type())
		})
	}
	// ---- reflect, as used by (*gengoCtx).New:
	//   reflect.New(reflectx.Indirect(reflect.ValueOf(g)).Type()).Interface().(Generator)
	ip.reg("reflect.ValueOf", func(ip *Interp, fr *frame, a []Value) Value {
		i := a[0].(Iface)
		return &Native{&rvalue{v: i.V, t: i.T}}
	})
	ip.regReflectModel()
	ip.allowFn["github.com/octohelm/x/reflect.Indirect"] = true
	// (reflect.Value).Pointer of a func value: the code pointer - equal for closures
	// made from the same function literal, distinct otherwise
	ip.reg("(reflect.Value).Pointer", func(ip *Interp, fr *frame, a []Value) Value {
		rv := a[0].(*Native).V.(*rvalue)
		var fn *ssa.Function
		switch f := rv.v.(type) {
		case *Closure:
			fn = f.Fn
		case *ssa.Function:
			fn = f
		default:
			panic(unsupported(fmt.Sprintf("(reflect.Value).Pointer of %T", rv.v)))
		}
		if ip.fnIDs == nil {
			ip.fnIDs = map[*ssa.Function]uint64{}
		}
		id, ok := ip.fnIDs[fn]
		if !ok {
			id = 0x400000 + uint64(len(ip.fnIDs))*64
			ip.fnIDs[fn] = id
		}
		return ip.ctx.BV(id, 64)
	})
	// reflect.Kind is a plain enumeration; String is exact for concrete kinds.
	ip.reg("(reflect.Kind).String", func(ip *Interp, fr *frame, a []Value) Value {
		k := ip.concretize(a[0].(*sym.Term))
		return mkStr(ip.ctx, reflect.Kind(k).String())
	})
	// GODEBUG settings: unset (the defaults of the toolchain apply, as in the native replay).
	ip.regStub("(*internal/godebug.Setting).Value", func(ip *Interp, fr *frame, a []Value) Value {
		return mkStr(ip.ctx, "")
	})
	ip.reg("(reflect.Value).Set", func(ip *Interp, fr *frame, a []Value) Value {
		dst := a[0].(*Native).V.(*rvalue)
		src := a[1].(*Native).V.(*rvalue)
		if dst.addr == nil {
			ip.rtPanic("reflect: reflect.Value.Set using unaddressable value")
		}
		if src.t == nil || !types.Identical(src.t, dst.t) {
			panic(unsupported("reflect.Value.Set with a value of another type"))
		}
		val := src.v
		if src.addr != nil {
			val = *src.addr
		}
		ip.store(dst.t, dst.addr, copyVal(val))
		return nil
	})
	ip.reg("reflect.New", func(ip *Interp, fr *frame, a []Value) Value {
		t := rtypeOf(a[0])
		p := new(Value)
		*p = ip.zero(t)
		return &Native{&rvalue{v: p, t: types.NewPointer(t)}}
	})

	// ---- go/parser, formatter (contract stubs)
	//
	// parser.ParseFile(fset, filename, src []byte, mode): succeeds unless the
	// source contains the marker "!!SYNTAX!!" (which is not valid Go either, so
	// the native replay agrees); the returned *ast.File remembers the source.
	// ast.SortImports / gofumpt format.File: no-ops. go/format.Node(w, fset, f):
	// writes the remembered source unchanged (formatting itself is C01's subject
	// and not modelled).
	ip.regStub("go/parser.ParseFile", func(ip *Interp, fr *frame, a []Value) Value {
		filename, _ := a[1].(Str).Concrete()
		src := a[2].(Iface)
		var text Str
		switch v := src.V.(type) {
		case Slice:
			text = strOf(sliceBytes(v))
		case Str:
			text = v
		default:
			panic(unsupported("parser.ParseFile: unsupported source kind"))
		}
		ip.parsed = append(ip.parsed, parsedFile{filename, text})
		cs, conc := text.Concrete()
		if !conc {
			panic(unsupported("parser.ParseFile stub needs concrete source text"))
		}
		if strings.Contains(cs, "!!SYNTAX!!") {
			// scanner.ErrorList{&scanner.Error{Pos: token.Position{Filename, Line: 1, Column: 1}, Msg: ...}}
			el := ip.namedType("go/scanner", "ErrorList")
			e := new(Value)
			*e = Struct{Struct{mkStr(ip.ctx, filename), ip.intC(0), ip.intC(1), ip.intC(1)}, mkStr(ip.ctx, "syntax error (stub)")}
			arr := []Value{e}
			return Tuple{(*Value)(nil), Iface{T: el, V: Slice{Arr: &arr, Len: 1, Cap: 1}}}
		}
		return Tuple{&Native{&parsedFile{filename, text}}, Iface{}}
	})
	ip.regStub("go/ast.SortImports", func(ip *Interp, fr *frame, a []Value) Value { return nil })
	ip.regStub("mvdan.cc/gofumpt/format.File", func(ip *Interp, fr *frame, a []Value) Value { return nil })
	ip.regStub("go/format.Node", func(ip *Interp, fr *frame, a []Value) Value {
		w := a[0].(Iface)
		node := a[2].(Iface)
		pf, ok := node.V.(*Native)
		if !ok {
			panic(unsupported("format.Node of a node that did not come from the ParseFile stub"))
		}
		text := pf.V.(*parsedFile).text
		m := ip.findMethod(w.T, "Write")
		if m == nil {
			panic(unsupported("format.Node: writer without Write"))
		}
		r := ip.call(fr, m, []Value{w.V, ip.bytesSliceValue(text.B)}).(Tuple)
		return r[1]
	})
	vs := func(name string, f Intrinsic) { ip.intrinsics[symPkg+name] = f }
	// Provide(key, value): the harness hands a prepared value to an environment stub
	vs("Provide", func(ip *Interp, fr *frame, a []Value) Value {
		k, _ := a[0].(Str).Concrete()
		ip.provided[k] = a[1]
		return nil
	})
	// packages.Load: contract stub returning the root packages the harness
	// prepared (an arbitrary import DAG of harness-built *packages.Package values)
	ip.regStub("golang.org/x/tools/go/packages.Load", func(ip *Interp, fr *frame, a []Value) Value {
		v, ok := ip.provided["packages.Load"]
		if !ok {
			panic(unsupported("packages.Load without a provided result"))
		}
		if pv := v.(Iface); pv.T != nil {
			if _, isFunc := pv.T.Underlying().(*types.Signature); isFunc {
				// a builder func(*packages.Config) []*packages.Package: lets the harness
				// place its files in the FileSet the caller configured
				return Tuple{ip.call(fr, pv.V, []Value{a[0]}), Iface{}}
			}
		}
		return Tuple{v.(Iface).V, Iface{}}
	})
	// golang.org/x/mod/sumdb/dirhash over the filesystem model, computed exactly as
	// the real package does (sha256 of every file, summary "h1:" + base64 of the
	// sha256 of the "%x  name" lines): file contents must be concrete. Hash1 calls
	// the open function it is given (interpreted) and reads through the returned
	// io.ReadCloser, so a caller that wraps or cuts the content is seen.
	listDir := func(ip *Interp, dir, prefix string) []string {
		var out []string
		for f := range ip.fs.files {
			if strings.HasPrefix(f, dir+"/") && !strings.HasSuffix(f, "/") {
				out = append(out, filepath.ToSlash(filepath.Join(prefix, f[len(dir)+1:])))
			}
		}
		sort.Strings(out)
		return out
	}
	concBytes := func(b []*sym.Term, what string) []byte {
		out := make([]byte, len(b))
		for i, t := range b {
			if !t.IsConst() {
				panic(unsupported("dirhash over symbolic file content: " + what))
			}
			out[i] = byte(t.Val)
		}
		return out
	}
	summary := func(names []string, content func(name string) ([]byte, Value)) Value {
		names = append([]string(nil), names...)
		sort.Strings(names)
		h := sha256.New()
		for _, n := range names {
			if strings.Contains(n, "\n") {
				return Tuple{mkStr(ip.ctx, ""), ip.newError(mkStr(ip.ctx, "dirhash: filenames with newlines are not supported"))}
			}
			data, err := content(n)
			if err != nil {
				return Tuple{mkStr(ip.ctx, ""), err}
			}
			fmt.Fprintf(h, "%x  %s\n", sha256.Sum256(data), n)
		}
		return Tuple{mkStr(ip.ctx, "h1:"+base64.StdEncoding.EncodeToString(h.Sum(nil))), Iface{}}
	}
	ip.regStub("golang.org/x/mod/sumdb/dirhash.HashDir", func(ip *Interp, fr *frame, a []Value) Value {
		dir, _ := a[0].(Str).Concrete()
		prefix, _ := a[1].(Str).Concrete()
		return summary(listDir(ip, dir, prefix), func(name string) ([]byte, Value) {
			rel := strings.TrimPrefix(strings.TrimPrefix(name, prefix), "/")
			f := ip.fs.files[dir+"/"+rel]
			if f == nil {
				return nil, ip.fsErr("open "+dir+"/"+rel+": no such file or directory", true)
			}
			return concBytes(f.data.B, dir+"/"+rel), nil
		})
	})
	ip.regStub("golang.org/x/mod/sumdb/dirhash.DirFiles", func(ip *Interp, fr *frame, a []Value) Value {
		dir, _ := a[0].(Str).Concrete()
		prefix, _ := a[1].(Str).Concrete()
		names := listDir(ip, dir, prefix)
		arr := make([]Value, len(names))
		for i, n := range names {
			arr[i] = mkStr(ip.ctx, n)
		}
		return Tuple{Slice{Arr: &arr, Len: len(arr), Cap: len(arr)}, Iface{}}
	})
	ip.regStub("golang.org/x/mod/sumdb/dirhash.Hash1", func(ip *Interp, fr *frame, a []Value) Value {
		sl := a[0].(Slice)
		var names []string
		for i := 0; i < sl.Len; i++ {
			n, ok := (*sl.at(i)).(Str).Concrete()
			if !ok {
				panic(unsupported("dirhash.Hash1 with symbolic file names"))
			}
			names = append(names, n)
		}
		open := a[1]
		return summary(names, func(name string) ([]byte, Value) {
			r := ip.call(fr, open, []Value{mkStr(ip.ctx, name)}).(Tuple)
			if e := r[1].(Iface); e.T != nil {
				return nil, e
			}
			rc := r[0].(Iface)
			read, closeFn := ip.findMethod(rc.T, "Read"), ip.findMethod(rc.T, "Close")
			if read == nil || closeFn == nil {
				panic(unsupported("dirhash.Hash1: open returned a value without Read/Close"))
			}
			var data []*sym.Term
			for {
				arr := make([]Value, 32*1024)
				for i := range arr {
					arr[i] = ip.ctx.BV(0, 8)
				}
				buf := Slice{Arr: &arr, Len: len(arr), Cap: len(arr)}
				rr := ip.call(fr, read, []Value{rc.V, buf}).(Tuple)
				n := int(ip.concretize(rr[0].(*sym.Term)))
				for i := 0; i < n; i++ {
					data = append(data, arr[i].(*sym.Term))
				}
				if e := rr[1].(Iface); e.T != nil {
					if ip.truth(ip.ctx.Bool(ip.errIs(fr, e, (*ip.global(ip.Prog.ImportedPackage("io").Var("EOF"))).(Iface), 0))) {
						break
					}
					return nil, e
				}
				if n == 0 && len(data) > 1<<26 {
					panic(unsupported("dirhash.Hash1: reader never ends"))
				}
			}
			ip.call(fr, closeFn, []Value{rc.V})
			return concBytes(data, name), nil
		})
	})
	// sort.Slice / sort.SliceStable: insertion sort driven by the interpreted less
	// function (a valid outcome of the unstable sort; the order of elements that
	// compare equal is unspecified in Go and follows the input order here)
	sortSlice := func(ip *Interp, fr *frame, a []Value) Value {
		sl, ok := a[0].(Iface).V.(Slice)
		if !ok {
			ip.rtPanic("sort.Slice: argument is not a slice")
		}
		less := a[1]
		for i := 1; i < sl.Len; i++ {
			for j := i; j > 0; j-- {
				r := ip.call(fr, less, []Value{ip.intC(int64(j)), ip.intC(int64(j - 1))})
				if !ip.truth(r) {
					break
				}
				x, y := copyVal(*sl.at(j)), copyVal(*sl.at(j - 1))
				ip.storeAt(sl.at(j), y)
				ip.storeAt(sl.at(j-1), x)
			}
		}
		return nil
	}
	ip.reg("sort.Slice", sortSlice)
	ip.reg("sort.SliceStable", sortSlice)
	vs("ParsedSources", func(ip *Interp, fr *frame, a []Value) Value {
		arr := make([]Value, 0, len(ip.parsed))
		for _, p := range ip.parsed {
			arr = append(arr, mkStr(ip.ctx, p.name), p.text)
		}
		return Slice{Arr: &arr, Len: len(arr), Cap: len(arr)}
	})
}

type parsedFile struct {
	name string
	text Str
}

var rtypeMarker = types.NewNamed(types.NewTypeName(0, nil, "rtypeModel", nil), types.NewStruct(nil, nil), nil)

var _ = fmt.Sprint
var _ *sym.Term
