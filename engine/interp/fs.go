package interp

import (
	"fmt"
	"go/types"
	"sort"
	"strings"

	"verif/gosym/sym"
)

// In-engine filesystem model (contract stubs for package os). File names are
// concrete strings; contents are symbolic byte strings. Every mutating call is
// appended to an effect trace the harness can read (verifsym.FSTrace).

type fsFile struct {
	data Str
}

type fsHandle struct {
	name   string
	closed bool
	off    int
}

type fsState struct {
	files    map[string]*fsFile
	trace    []string
	failOpen map[string]bool // OpenFile/Create on these paths fails with a non-ENOENT error
	notExist map[*Value]bool // error values that satisfy os.IsNotExist
	tmpSeq   int             // os.CreateTemp counter
}

func newFS() *fsState {
	return &fsState{files: map[string]*fsFile{}, failOpen: map[string]bool{}, notExist: map[*Value]bool{}}
}

const VFSRoot = "/vfs"

func (ip *Interp) concStr(v Value, what string) string {
	s, ok := v.(Str).Concrete()
	if !ok {
		panic(unsupported("filesystem model needs a concrete " + what))
	}
	return s
}

func (ip *Interp) fsDirExists(name string) bool {
	i := strings.LastIndex(name, "/")
	if i <= 0 {
		return true
	}
	dir := name[:i]
	if dir == VFSRoot || strings.HasPrefix(VFSRoot, dir) {
		return true
	}
	for f := range ip.fs.files {
		if strings.HasPrefix(f, dir+"/") {
			return true
		}
	}
	return ip.fs.files[dir+"/"] != nil // explicit directory marker
}

func (ip *Interp) fsErr(msg string, notExist bool) Value {
	e := ip.newError(mkStr(ip.ctx, msg))
	if notExist {
		ip.fs.notExist[e.(Iface).V.(*Value)] = true
	}
	return e
}

func registerFS(ip *Interp) {
	vs := func(name string, f Intrinsic) { ip.intrinsics[symPkg+name] = f }
	vs("FSRoot", func(ip *Interp, fr *frame, a []Value) Value { return mkStr(ip.ctx, VFSRoot) })
	vs("FSPut", func(ip *Interp, fr *frame, a []Value) Value {
		ip.fs.files[ip.concStr(a[0], "file name")] = &fsFile{data: a[1].(Str)}
		return nil
	})
	vs("FSMkdir", func(ip *Interp, fr *frame, a []Value) Value {
		ip.fs.files[ip.concStr(a[0], "dir name")+"/"] = &fsFile{}
		return nil
	})
	vs("FSGet", func(ip *Interp, fr *frame, a []Value) Value {
		f := ip.fs.files[ip.concStr(a[0], "file name")]
		if f == nil {
			return Tuple{mkStr(ip.ctx, ""), ip.ctx.False}
		}
		return Tuple{f.data, ip.ctx.True}
	})
	vs("FSFailOpen", func(ip *Interp, fr *frame, a []Value) Value {
		ip.fs.failOpen[ip.concStr(a[0], "file name")] = true
		return nil
	})
	vs("FSTrace", func(ip *Interp, fr *frame, a []Value) Value {
		arr := make([]Value, len(ip.fs.trace))
		for i, t := range ip.fs.trace {
			arr[i] = mkStr(ip.ctx, t)
		}
		return Slice{Arr: &arr, Len: len(arr), Cap: len(arr)}
	})
	vs("FSList", func(ip *Interp, fr *frame, a []Value) Value {
		var names []string
		for n := range ip.fs.files {
			if !strings.HasSuffix(n, "/") {
				names = append(names, n)
			}
		}
		sort.Strings(names)
		arr := make([]Value, len(names))
		for i, t := range names {
			arr[i] = mkStr(ip.ctx, t)
		}
		return Slice{Arr: &arr, Len: len(arr), Cap: len(arr)}
	})

	stub := func(name string, f Intrinsic) {
		ip.intrinsics[name] = func(ip *Interp, fr *frame, a []Value) Value {
			ip.Used[name] = "stub"
			return f(ip, fr, a)
		}
	}
	stub("os.ReadFile", func(ip *Interp, fr *frame, a []Value) Value {
		name := ip.concStr(a[0], "file name")
		f := ip.fs.files[name]
		if f == nil {
			return Tuple{Slice{}, ip.fsErr("open "+name+": no such file or directory", true)}
		}
		return Tuple{ip.bytesSliceValue(f.data.B), Iface{}}
	})
	open := func(ip *Interp, name string, trunc, create bool) Value {
		if ip.fs.failOpen[name] {
			return Tuple{(*Value)(nil), ip.fsErr("open "+name+": permission denied", false)}
		}
		f := ip.fs.files[name]
		if f == nil {
			if !create || !ip.fsDirExists(name) {
				return Tuple{(*Value)(nil), ip.fsErr("open "+name+": no such file or directory", true)}
			}
			f = &fsFile{data: mkStr(ip.ctx, "")}
			ip.fs.files[name] = f
			ip.fs.trace = append(ip.fs.trace, "create:"+name)
		} else if trunc {
			f.data = mkStr(ip.ctx, "")
			ip.fs.trace = append(ip.fs.trace, "truncate:"+name)
		}
		return Tuple{&Native{&fsHandle{name: name}}, Iface{}}
	}
	stub("os.OpenFile", func(ip *Interp, fr *frame, a []Value) Value {
		name := ip.concStr(a[0], "file name")
		fl := a[1].(*sym.Term)
		if !fl.IsConst() {
			panic(unsupported("os.OpenFile with symbolic flags"))
		}
		const oCreate, oTrunc = 0x40, 0x200
		return open(ip, name, fl.Val&oTrunc != 0, fl.Val&oCreate != 0)
	})
	stub("os.Open", func(ip *Interp, fr *frame, a []Value) Value {
		return open(ip, ip.concStr(a[0], "file name"), false, false)
	})
	stub("(*os.File).Read", func(ip *Interp, fr *frame, a []Value) Value {
		h := a[0].(*Native).V.(*fsHandle)
		sl := a[1].(Slice)
		f := ip.fs.files[h.name]
		if f == nil || h.closed {
			return Tuple{ip.intC(0), ip.fsErr("read "+h.name+": file already closed", false)}
		}
		if sl.Len == 0 {
			return Tuple{ip.intC(0), Iface{}}
		}
		if h.off >= len(f.data.B) {
			eof := ip.Prog.ImportedPackage("io").Var("EOF")
			return Tuple{ip.intC(0), *ip.global(eof)}
		}
		n := min(sl.Len, len(f.data.B)-h.off)
		for i := 0; i < n; i++ {
			ip.write(sl.at(i), f.data.B[h.off+i])
		}
		h.off += n
		return Tuple{ip.intC(int64(n)), Iface{}}
	})
	// (*os.File).Stat: a *os.fileStat with name and size filled in (its accessor methods are interpreted)
	ip.allowFn["(*os.fileStat).Size"] = true
	ip.allowFn["(*os.fileStat).Name"] = true
	ip.allowFn["(*os.fileStat).IsDir"] = true
	ip.allowFn["(*os.fileStat).Mode"] = true
	stub("(*os.File).Stat", func(ip *Interp, fr *frame, a []Value) Value {
		h := a[0].(*Native).V.(*fsHandle)
		f := ip.fs.files[h.name]
		if f == nil || h.closed {
			return Tuple{Iface{}, ip.fsErr("stat "+h.name+": file already closed", false)}
		}
		t := ip.namedType("os", "fileStat")
		st := ip.zero(t).(Struct)
		base := h.name
		if i := strings.LastIndex(base, "/"); i >= 0 {
			base = base[i+1:]
		}
		st[0] = mkStr(ip.ctx, base)
		st[1] = ip.ctx.BV(uint64(len(f.data.B)), 64)
		p := new(Value)
		*p = st
		return Tuple{Iface{T: types.NewPointer(t), V: p}, Iface{}}
	})
	// temp file + rename (atomic-save idiom)
	stub("os.CreateTemp", func(ip *Interp, fr *frame, a []Value) Value {
		dir := ip.concStr(a[0], "dir name")
		pat := ip.concStr(a[1], "temp pattern")
		ip.fs.tmpSeq++
		suffix := fmt.Sprintf("%09d", 123456789+ip.fs.tmpSeq)
		name := pat + suffix
		if i := strings.LastIndex(pat, "*"); i >= 0 {
			name = pat[:i] + suffix + pat[i+1:]
		}
		return open(ip, dir+"/"+name, true, true)
	})
	stub("(*os.File).Name", func(ip *Interp, fr *frame, a []Value) Value {
		return mkStr(ip.ctx, a[0].(*Native).V.(*fsHandle).name)
	})
	for _, n := range []string{"(*os.File).Sync", "(*os.File).Chmod"} {
		stub(n, func(ip *Interp, fr *frame, a []Value) Value { return Iface{} })
	}
	isDir := func(ip *Interp, name string) bool {
		if ip.fs.failOpen[name] { // FSFailOpen: natively a directory of that name
			return true
		}
		if _, ok := ip.fs.files[name+"/"]; ok {
			return true
		}
		for f := range ip.fs.files {
			if strings.HasPrefix(f, name+"/") {
				return true
			}
		}
		return false
	}
	stub("os.Rename", func(ip *Interp, fr *frame, a []Value) Value {
		from, to := ip.concStr(a[0], "file name"), ip.concStr(a[1], "file name")
		f := ip.fs.files[from]
		if f == nil {
			return ip.fsErr("rename "+from+" "+to+": no such file or directory", true)
		}
		if isDir(ip, to) {
			return ip.fsErr("rename "+from+" "+to+": file exists", false)
		}
		if !ip.fsDirExists(to) {
			return ip.fsErr("rename "+from+" "+to+": no such file or directory", true)
		}
		ip.fs.files[to] = f
		delete(ip.fs.files, from)
		ip.fs.trace = append(ip.fs.trace, "rename:"+from+"->"+to, "write:"+to)
		return Iface{}
	})
	stub("os.Remove", func(ip *Interp, fr *frame, a []Value) Value {
		name := ip.concStr(a[0], "file name")
		if _, ok := ip.fs.files[name]; !ok {
			return ip.fsErr("remove "+name+": no such file or directory", true)
		}
		delete(ip.fs.files, name)
		ip.fs.trace = append(ip.fs.trace, "remove:"+name)
		return Iface{}
	})
	stub("os.WriteFile", func(ip *Interp, fr *frame, a []Value) Value {
		name := ip.concStr(a[0], "file name")
		r := open(ip, name, true, true).(Tuple)
		if e := r[1].(Iface); e.T != nil {
			return e
		}
		f := ip.fs.files[name]
		f.data = strOf(append([]*sym.Term(nil), sliceBytes(a[1])...))
		ip.fs.trace = append(ip.fs.trace, fmt.Sprintf("write:%s", name))
		return Iface{}
	})
	stub("os.Create", func(ip *Interp, fr *frame, a []Value) Value {
		return open(ip, ip.concStr(a[0], "file name"), true, true)
	})
	stub("(*os.File).Write", func(ip *Interp, fr *frame, a []Value) Value {
		h := a[0].(*Native).V.(*fsHandle)
		b := sliceBytes(a[1])
		f := ip.fs.files[h.name]
		if f == nil || h.closed {
			return Tuple{ip.intC(0), ip.fsErr("write "+h.name+": file already closed", false)}
		}
		// write at the handle's offset, overwriting what is there and extending the file
		nb := append([]*sym.Term(nil), f.data.B[:min(h.off, len(f.data.B))]...)
		nb = append(nb, b...)
		if h.off+len(b) < len(f.data.B) {
			nb = append(nb, f.data.B[h.off+len(b):]...)
		}
		f.data = strOf(nb)
		h.off += len(b)
		ip.fs.trace = append(ip.fs.trace, fmt.Sprintf("write:%s", h.name))
		return Tuple{ip.intC(int64(len(b))), Iface{}}
	})
	stub("(*os.File).Close", func(ip *Interp, fr *frame, a []Value) Value {
		if n, ok := a[0].(*Native); ok {
			n.V.(*fsHandle).closed = true
		}
		return Iface{}
	})
	stub("os.RemoveAll", func(ip *Interp, fr *frame, a []Value) Value {
		name := ip.concStr(a[0], "file name")
		for f := range ip.fs.files {
			if f == name || strings.HasPrefix(f, name+"/") {
				delete(ip.fs.files, f)
			}
		}
		ip.fs.trace = append(ip.fs.trace, "remove:"+name)
		return Iface{}
	})
	stub("os.IsNotExist", func(ip *Interp, fr *frame, a []Value) Value {
		e := a[0].(Iface)
		if e.T == nil {
			return ip.ctx.False
		}
		if p, ok := e.V.(*Value); ok && ip.fs.notExist[p] {
			return ip.ctx.True
		}
		return ip.ctx.False
	})
}
