package interp

import (
	"fmt"
	"go/token"
	"go/types"
	"unicode/utf8"

	"golang.org/x/tools/go/ssa"

	"verif/gosym/solver"
	"verif/gosym/sym"
)

// ---------------------------------------------------------------- deciding

func (ip *Interp) addPC(t *sym.Term) {
	if t.IsConst() {
		return
	}
	if ip.pcSet[t] {
		return
	}
	ip.pcSet[t] = true
	// conjunctions are stored as their conjuncts so that constraint-independence
	// slicing is not glued together by one big And
	switch {
	case t.Op == sym.OpAnd:
		ip.addPC(t.Args[0])
		ip.addPC(t.Args[1])
		return
	case t.Op == sym.OpNot && t.Args[0].Op == sym.OpOr:
		ip.addPC(ip.ctx.Not(t.Args[0].Args[0]))
		ip.addPC(ip.ctx.Not(t.Args[0].Args[1]))
		return
	}
	ip.pc = append(ip.pc, t)
}

// slicedPC returns the conjuncts of the path condition that (transitively)
// share variables with the given terms.
func (ip *Interp) slicedPC(ts ...*sym.Term) []*sym.Term {
	want := map[*sym.Term]bool{}
	seen := map[*sym.Term]bool{}
	for _, t := range ts {
		sym.Vars(t, seen, want)
	}
	if len(ip.pc) == 0 {
		return nil
	}
	type cv struct {
		vars map[*sym.Term]bool
		in   bool
	}
	cs := make([]cv, len(ip.pc))
	for i, c := range ip.pc {
		vs := map[*sym.Term]bool{}
		sym.Vars(c, map[*sym.Term]bool{}, vs)
		cs[i].vars = vs
	}
	changed := true
	for changed {
		changed = false
		for i := range cs {
			if cs[i].in {
				continue
			}
			for v := range cs[i].vars {
				if want[v] {
					cs[i].in = true
					changed = true
					for v2 := range cs[i].vars {
						want[v2] = true
					}
					break
				}
			}
		}
	}
	var out []*sym.Term
	for i := range cs {
		if cs[i].in {
			out = append(out, ip.pc[i])
		}
	}
	return out
}

// Work is one unexplored alternative: a decision prefix plus a model of the
// path condition that the prefix produces.
type Work struct {
	Prefix []Dec
	Model  map[string]uint64
}

func (ip *Interp) evalBool(c *sym.Term) bool {
	return ip.ctx.Eval(c, ip.model, map[*sym.Term]uint64{}) != 0
}

func cloneModel(m map[string]uint64) map[string]uint64 {
	n := make(map[string]uint64, len(m)+4)
	for k, v := range m {
		n[k] = v
	}
	return n
}

// solve decides sat(slicedPC ∧ c). On sat it returns the current model updated
// with the solver's values for the variables of the slice (a model of PC ∧ c,
// because the rest of the path condition shares no variable with the slice).
func (ip *Interp) solve(c *sym.Term) (bool, map[string]uint64) {
	return ip.solveWith(c, true)
}

// solveZ3 always asks the SMT solver (used for assertions).
func (ip *Interp) solveZ3(c *sym.Term) (bool, map[string]uint64) {
	return ip.solveWith(c, false)
}

func flattenAnd(t *sym.Term, out []*sym.Term) []*sym.Term {
	if t.Op == sym.OpAnd {
		out = flattenAnd(t.Args[0], out)
		return flattenAnd(t.Args[1], out)
	}
	return append(out, t)
}

// solveWith decides sat(PC ∧ c). The relevant constraints (the slice of the
// path condition sharing variables with c, plus c's conjuncts) are partitioned
// into variable-disjoint components which are decided independently.
func (ip *Interp) solveWith(c *sym.Term, allowEnum bool) (bool, map[string]uint64) {
	terms := append(ip.slicedPC(c), flattenAnd(c, nil)...)
	// union-find over variables
	parent := map[*sym.Term]*sym.Term{}
	var find func(v *sym.Term) *sym.Term
	find = func(v *sym.Term) *sym.Term {
		p, ok := parent[v]
		if !ok || p == v {
			parent[v] = v
			return v
		}
		r := find(p)
		parent[v] = r
		return r
	}
	tvars := make([][]*sym.Term, len(terms))
	for i, t := range terms {
		vs := map[*sym.Term]bool{}
		sym.Vars(t, map[*sym.Term]bool{}, vs)
		var first *sym.Term
		for v := range vs {
			tvars[i] = append(tvars[i], v)
			if first == nil {
				first = find(v)
			} else {
				parent[find(v)] = first
			}
		}
	}
	groups := map[*sym.Term][]*sym.Term{}
	var order []*sym.Term
	for i, t := range terms {
		if len(tvars[i]) == 0 {
			if t.IsConst() && t.Val == 0 {
				return false, nil
			}
			continue
		}
		r := find(tvars[i][0])
		if _, ok := groups[r]; !ok {
			order = append(order, r)
		}
		groups[r] = append(groups[r], t)
	}
	nm := cloneModel(ip.model)
	for _, r := range order {
		q := groups[r]
		if allowEnum && !ip.NoByteEnum {
			if ok, sat, m := ip.enumSingleByte(q); ok {
				if !sat {
					return false, nil
				}
				for k, v := range m {
					nm[k] = v
				}
				continue
			}
		}
		res, m, err := ip.Sol.Check(q, true)
		if err != nil || res == solver.Unknown {
			msg := "solver unknown"
			if err != nil {
				msg = err.Error()
			}
			ip.inconcl = append(ip.inconcl, msg)
			return false, nil // side not explored; the run is flagged inconclusive
		}
		if res != solver.Sat {
			// an unsat answer prunes a branch: have the second solver confirm it
			if ip.Sol2 != nil && ip.Stats.XChecked < ip.XCheckBudget {
				r2, _, err2 := ip.Sol2.Check(q, false)
				ip.Stats.XChecked++
				switch {
				case err2 == nil && r2 == solver.Unsat:
				case err2 == nil && r2 == solver.Sat:
					ip.Stats.XDisagree++
					ip.inconcl = append(ip.inconcl, fmt.Sprintf("cross-check: %s answers sat where %s answered unsat", ip.Sol2.Name, ip.Sol.Name))
				default:
					ip.Stats.XUnknown++ // timeout / unknown on the second solver: not confirmed, not a disagreement
				}
			}
			return false, nil
		}
		for k, v := range m {
			nm[k.Name] = v
		}
	}
	return true, nm
}

// enumSingleByte is a complete finite-domain pre-solver used only for branch
// feasibility: when the (sliced) query mentions exactly one variable and that
// variable is at most 8 bits wide, all of its values are tried by evaluating
// the conjunction. Everything else, and every assertion, goes to the SMT solver.
func (ip *Interp) enumSingleByte(q []*sym.Term) (handled, sat bool, nm map[string]uint64) {
	vars := map[*sym.Term]bool{}
	seen := map[*sym.Term]bool{}
	for _, t := range q {
		sym.Vars(t, seen, vars)
		if len(vars) > 1 {
			return false, false, nil
		}
	}
	if len(vars) != 1 {
		return false, false, nil
	}
	var v *sym.Term
	for x := range vars {
		v = x
	}
	if v.W > 8 {
		return false, false, nil
	}
	ip.Stats.EnumQueries++
	n := uint64(1) << uint(max(v.W, 1))
	asg := map[string]uint64{}
	try := func(val uint64) bool {
		asg[v.Name] = val
		memo := map[*sym.Term]uint64{}
		for _, t := range q {
			if ip.ctx.Eval(t, asg, memo) == 0 {
				return false
			}
		}
		return true
	}
	found := uint64(0)
	ok := false
	// prefer printable witnesses
	for _, val := range []uint64{'a', 'b', 'z', 'A', '0', ' '} {
		if val < n && try(val) {
			found, ok = val, true
			break
		}
	}
	for val := uint64(0); !ok && val < n; val++ {
		if try(val) {
			found, ok = val, true
		}
	}
	if !ok {
		return true, false, nil
	}
	return true, true, map[string]uint64{v.Name: found}
}

// feasible reports whether PC ∧ c is satisfiable (model discarded).
func (ip *Interp) feasible(c *sym.Term) bool {
	if ip.evalBool(c) {
		return true
	}
	ok, _ := ip.solve(c)
	return ok
}

// decide forks on a symbolic condition. Invariant: ip.model ⊨ PC whenever the
// interpreter is past its replay prefix; so one side is always known feasible
// by evaluation and only the other side needs the solver.
func (ip *Interp) decide(c *sym.Term) bool {
	if c.IsConst() {
		return c.Val != 0
	}
	if ip.inInit {
		panic(unsupported("symbolic branch during init"))
	}
	if ip.pcSet[c] {
		ip.Stats.FastPath++
		return true
	}
	nc := ip.ctx.Not(c)
	if ip.pcSet[nc] {
		ip.Stats.FastPath++
		return false
	}
	ip.Stats.Decides++
	var take bool
	if ip.pos < len(ip.prefix) {
		d := ip.prefix[ip.pos]
		if d.K != 'b' {
			panic(fmt.Sprintf("replay divergence: expected branch, got %c at %d", d.K, ip.pos))
		}
		take = d.V != 0
	} else {
		if ip.evalBool(c) {
			// c holds under the model; is ¬c possible too?
			if ok, m := ip.solve(nc); ok {
				alt := append(append([]Dec(nil), ip.trace...), Dec{'b', 0})
				ip.pending = append(ip.pending, Work{alt, m})
				ip.Stats.Forks++
				ip.noteFork()
			}
			take = true
		} else {
			if ok, m := ip.solve(c); ok {
				alt := append(append([]Dec(nil), ip.trace...), Dec{'b', 0})
				ip.pending = append(ip.pending, Work{alt, ip.model})
				ip.Stats.Forks++
				ip.noteFork()
				ip.model = m
				take = true
			} else {
				take = false
			}
		}
	}
	ip.pos++
	if take {
		ip.trace = append(ip.trace, Dec{'b', 1})
		ip.addPC(c)
	} else {
		ip.trace = append(ip.trace, Dec{'b', 0})
		ip.addPC(nc)
	}
	return take
}

// choose makes a free n-way choice (no feasibility constraint).
func (ip *Interp) choose(n int) int {
	if n <= 1 {
		return 0
	}
	if ip.inInit {
		panic(unsupported("choice during init"))
	}
	var k int
	if ip.pos < len(ip.prefix) {
		d := ip.prefix[ip.pos]
		if d.K != 'c' {
			panic(fmt.Sprintf("replay divergence: expected choice, got %c at %d", d.K, ip.pos))
		}
		k = int(d.V)
	} else {
		for alt := n - 1; alt >= 1; alt-- {
			p := append(append([]Dec(nil), ip.trace...), Dec{'c', int64(alt)})
			ip.pending = append(ip.pending, Work{p, ip.model})
			ip.Stats.Forks++
		}
		k = 0
	}
	ip.pos++
	ip.trace = append(ip.trace, Dec{'c', int64(k)})
	return k
}

func (ip *Interp) truth(v Value) bool {
	t, ok := v.(*sym.Term)
	if !ok {
		if p, isP := v.(Poison); isP {
			panic(unsupported("branch on poison: " + p.Why))
		}
		panic(fmt.Sprintf("truth of %T", v))
	}
	return ip.decide(t)
}

// concretizeRange forks t over lo..hi (t must already be known to lie in range).
func (ip *Interp) concretizeRange(t *sym.Term, lo, hi int64) int64 {
	if t.IsConst() {
		return t.SignedVal()
	}
	for v := lo; v < hi; v++ {
		if ip.decide(ip.ctx.Eq(t, ip.ctx.BV(uint64(v), t.W))) {
			return v
		}
	}
	ip.addPC(ip.ctx.Eq(t, ip.ctx.BV(uint64(hi), t.W)))
	return hi
}

// concretize forks t over its feasible values: the value under the current
// model first, then (in the alternative) whatever other values are feasible.
func (ip *Interp) concretize(t *sym.Term) int64 {
	for {
		if t.IsConst() {
			return t.SignedVal()
		}
		var v int64
		if ip.pos < len(ip.prefix) {
			d := ip.prefix[ip.pos]
			if d.K != 'v' {
				panic(fmt.Sprintf("replay divergence: expected value, got %c at %d", d.K, ip.pos))
			}
			v = d.V
		} else {
			v = sym.SignExt(ip.ctx.Eval(t, ip.model, map[*sym.Term]uint64{}), t.W)
		}
		ip.pos++
		ip.trace = append(ip.trace, Dec{'v', v})
		if ip.decide(ip.ctx.Eq(t, ip.ctx.BV(uint64(v), t.W))) {
			return v
		}
	}
}

func (ip *Interp) concretizeLen(v Value, msg string) int {
	t := v.(*sym.Term)
	if t.IsConst() {
		n := t.SignedVal()
		if n < 0 || n > 1<<24 {
			ip.rtPanic(msg)
		}
		return int(n)
	}
	t64 := t
	if t.W < 64 {
		t64 = ip.ctx.Sext(t, 64)
	}
	if ip.decide(ip.ctx.Cmp(sym.OpSlt, t64, ip.ctx.BV(0, 64))) {
		ip.rtPanic(msg)
	}
	return int(ip.concretize(t64))
}

// ---------------------------------------------------------------- unary / binary

func (ip *Interp) unop(fr *frame, instr *ssa.UnOp) Value {
	x := ip.get(fr, instr.X)
	if p, ok := x.(Poison); ok && ip.inInit {
		return p
	}
	switch instr.Op {
	case token.MUL:
		return ip.load(instr.Type(), x)
	case token.NOT:
		return ip.ctx.Not(x.(*sym.Term))
	case token.SUB:
		if f, ok := x.(Float); ok {
			return Float{-f.F}
		}
		return ip.ctx.Neg(x.(*sym.Term))
	case token.XOR:
		return ip.ctx.BNot(x.(*sym.Term))
	case token.ARROW:
		panic(unsupported("channel receive"))
	}
	panic(unsupported("unop " + instr.Op.String()))
}

func (ip *Interp) binop(op token.Token, t types.Type, x, y Value) Value {
	if p, ok := x.(Poison); ok {
		if ip.inInit {
			return p
		}
		panic(unsupported("binop on poison: " + p.Why))
	}
	if p, ok := y.(Poison); ok {
		if ip.inInit {
			return p
		}
		panic(unsupported("binop on poison: " + p.Why))
	}
	c := ip.ctx
	switch op {
	case token.EQL:
		return ip.eq(t, x, y)
	case token.NEQ:
		return c.Not(ip.eq(t, x, y))
	}
	switch xv := x.(type) {
	case *sym.Term:
		yv := y.(*sym.Term)
		if xv.W == 0 {
			switch op {
			case token.AND, token.LAND:
				return c.And(xv, yv)
			case token.OR, token.LOR:
				return c.Or(xv, yv)
			}
			panic(unsupported("bool binop " + op.String()))
		}
		_, signed, _ := intWidth(t)
		switch op {
		case token.ADD:
			return c.Bin(sym.OpAdd, xv, yv)
		case token.SUB:
			return c.Bin(sym.OpSub, xv, yv)
		case token.MUL:
			return c.Bin(sym.OpMul, xv, yv)
		case token.QUO, token.REM:
			if !yv.IsConst() {
				if ip.decide(c.Eq(yv, c.BV(0, yv.W))) {
					ip.rtPanic("integer divide by zero")
				}
			} else if yv.Val == 0 {
				ip.rtPanic("integer divide by zero")
			}
			if op == token.QUO {
				if signed {
					return c.Bin(sym.OpSDiv, xv, yv)
				}
				return c.Bin(sym.OpUDiv, xv, yv)
			}
			if signed {
				return c.Bin(sym.OpSRem, xv, yv)
			}
			return c.Bin(sym.OpURem, xv, yv)
		case token.AND:
			return c.Bin(sym.OpBAnd, xv, yv)
		case token.OR:
			return c.Bin(sym.OpBOr, xv, yv)
		case token.XOR:
			return c.Bin(sym.OpBXor, xv, yv)
		case token.AND_NOT:
			return c.Bin(sym.OpBAnd, xv, c.BNot(yv))
		case token.SHL, token.SHR:
			// shift count has its own type/width; normalise to xv's width, saturating
			cnt := yv
			if cnt.W > xv.W {
				// if any high bit set the count is ≥ width
				hi := c.Extract(cnt, cnt.W-1, xv.W)
				lo := c.Extract(cnt, xv.W-1, 0)
				big := c.Not(c.Eq(hi, c.BV(0, hi.W)))
				cnt = c.Ite(big, c.BV(uint64(xv.W), xv.W), lo)
			} else if cnt.W < xv.W {
				cnt = c.Zext(cnt, xv.W)
			}
			if op == token.SHL {
				return c.Bin(sym.OpShl, xv, cnt)
			}
			if signed {
				return c.Bin(sym.OpAshr, xv, cnt)
			}
			return c.Bin(sym.OpLshr, xv, cnt)
		case token.LSS:
			if signed {
				return c.Cmp(sym.OpSlt, xv, yv)
			}
			return c.Cmp(sym.OpUlt, xv, yv)
		case token.LEQ:
			if signed {
				return c.Cmp(sym.OpSle, xv, yv)
			}
			return c.Cmp(sym.OpUle, xv, yv)
		case token.GTR:
			if signed {
				return c.Cmp(sym.OpSlt, yv, xv)
			}
			return c.Cmp(sym.OpUlt, yv, xv)
		case token.GEQ:
			if signed {
				return c.Cmp(sym.OpSle, yv, xv)
			}
			return c.Cmp(sym.OpUle, yv, xv)
		}
	case Str:
		yv := y.(Str)
		switch op {
		case token.ADD:
			b := make([]*sym.Term, 0, len(xv.B)+len(yv.B))
			b = append(b, xv.B...)
			b = append(b, yv.B...)
			return strOf(b)
		case token.LSS:
			return ip.strLess(xv, yv)
		case token.GTR:
			return ip.strLess(yv, xv)
		case token.LEQ:
			return c.Not(ip.strLess(yv, xv))
		case token.GEQ:
			return c.Not(ip.strLess(xv, yv))
		}
	case Float:
		yv, ok := y.(Float)
		if ok {
			switch op {
			case token.ADD:
				return Float{xv.F + yv.F}
			case token.SUB:
				return Float{xv.F - yv.F}
			case token.MUL:
				return Float{xv.F * yv.F}
			case token.QUO:
				return Float{xv.F / yv.F}
			case token.LSS:
				return c.Bool(xv.F < yv.F)
			case token.GTR:
				return c.Bool(xv.F > yv.F)
			case token.LEQ:
				return c.Bool(xv.F <= yv.F)
			case token.GEQ:
				return c.Bool(xv.F >= yv.F)
			}
		}
	}
	panic(unsupported(fmt.Sprintf("binop %s on %T", op, x)))
}

// strLess builds the term for x < y (lexicographic on bytes).
func (ip *Interp) strLess(x, y Str) *sym.Term {
	c := ip.ctx
	n := min(len(x.B), len(y.B))
	// res = at first differing position i<n: x[i]<y[i]; if none: len(x)<len(y)
	res := c.Bool(len(x.B) < len(y.B))
	for i := n - 1; i >= 0; i-- {
		eq := c.Eq(x.B[i], y.B[i])
		lt := c.Cmp(sym.OpUlt, x.B[i], y.B[i])
		res = c.Ite(eq, res, lt)
	}
	return res
}

func (ip *Interp) strEq(x, y Str) *sym.Term {
	c := ip.ctx
	if len(x.B) != len(y.B) {
		return c.False
	}
	r := c.True
	for i := range x.B {
		r = c.And(r, c.Eq(x.B[i], y.B[i]))
		if r == c.False {
			return r
		}
	}
	return r
}

func (ip *Interp) eq(t types.Type, x, y Value) *sym.Term {
	c := ip.ctx
	switch xv := x.(type) {
	case *sym.Term:
		return c.Eq(xv, y.(*sym.Term))
	case Str:
		return ip.strEq(xv, y.(Str))
	case *Value:
		switch yv := y.(type) {
		case *Value:
			return c.Bool(xv == yv)
		case *SymPtr, *Native:
			return c.False
		case nil:
			return c.Bool(xv == nil)
		}
	case *Native:
		switch yv := y.(type) {
		case *Native:
			return c.Bool(xv == yv)
		case *Value:
			return c.Bool(xv == nil && yv == nil)
		}
	case Iface:
		yv := y.(Iface)
		if xv.T == nil || yv.T == nil {
			return c.Bool(xv.T == nil && yv.T == nil)
		}
		if !types.Identical(xv.T, yv.T) {
			return c.False
		}
		if !types.Comparable(xv.T) {
			ip.rtPanic("comparing uncomparable type " + xv.T.String())
		}
		return ip.eq(xv.T, xv.V, yv.V)
	case Struct:
		yv := y.(Struct)
		r := c.True
		st, _ := t.Underlying().(*types.Struct)
		for i := range xv {
			var ft types.Type
			if st != nil {
				ft = st.Field(i).Type()
			}
			r = c.And(r, ip.eq(ft, xv[i], yv[i]))
		}
		return r
	case Array:
		yv := y.(Array)
		r := c.True
		var et types.Type
		if at, ok := t.Underlying().(*types.Array); ok {
			et = at.Elem()
		}
		for i := range xv {
			r = c.And(r, ip.eq(et, xv[i], yv[i]))
		}
		return r
	case *MapObj:
		yv, _ := y.(*MapObj)
		return c.Bool(xv == yv)
	case Slice:
		yv := y.(Slice)
		if xv.Arr != nil && yv.Arr != nil {
			panic("slice compared to non-nil slice")
		}
		return c.Bool(xv.Arr == nil && yv.Arr == nil)
	case nil:
		return c.Bool(isNilFunc(y))
	case *ssa.Function, *Closure, *NativeFunc, *ssa.Builtin:
		return c.Bool(false && isNilFunc(y))
	case Float:
		if yv, ok := y.(Float); ok {
			return c.Bool(xv.F == yv.F)
		}
	}
	panic(unsupported(fmt.Sprintf("== on %T / %T", x, y)))
}

func isNilFunc(v Value) bool {
	switch f := v.(type) {
	case nil:
		return true
	case *ssa.Function:
		return f == nil
	case *Closure:
		return f == nil
	}
	return false
}

// ---------------------------------------------------------------- conversions

func (ip *Interp) conv(dst, src types.Type, x Value) Value {
	if p, ok := x.(Poison); ok {
		if ip.inInit {
			return p
		}
		panic(unsupported("convert poison"))
	}
	c := ip.ctx
	ud, us := dst.Underlying(), src.Underlying()
	// integer → integer
	if dw, _, ok := intWidth(ud); ok {
		if sw, ssigned, ok2 := intWidth(us); ok2 {
			t := x.(*sym.Term)
			_ = sw
			if dw <= t.W {
				return c.Extract(t, dw-1, 0)
			}
			if ssigned {
				return c.Sext(t, dw)
			}
			return c.Zext(t, dw)
		}
		if f, isF := x.(Float); isF {
			return c.BV(uint64(int64(f.F)), dw)
		}
		if b, ok := us.(*types.Basic); ok && b.Kind() == types.UnsafePointer {
			panic(unsupported("unsafe.Pointer → integer"))
		}
	}
	if isFloatT(ud) {
		if t, ok := x.(*sym.Term); ok && t.IsConst() {
			_, signed, _ := intWidth(us)
			if signed {
				return Float{float64(t.SignedVal())}
			}
			return Float{float64(t.Val)}
		}
		if f, ok := x.(Float); ok {
			return f
		}
		panic(unsupported("symbolic integer → float"))
	}
	if isStringT(ud) {
		switch xv := x.(type) {
		case Str:
			return xv
		case Slice: // []byte or []rune
			et := us.(*types.Slice).Elem()
			w, _, _ := intWidth(et)
			if w == 8 {
				b := make([]*sym.Term, xv.Len)
				for i := 0; i < xv.Len; i++ {
					b[i] = (*xv.at(i)).(*sym.Term)
				}
				return strOf(b)
			}
			var b []*sym.Term
			for i := 0; i < xv.Len; i++ {
				b = append(b, ip.encodeRune((*xv.at(i)).(*sym.Term))...)
			}
			return strOf(b)
		case *sym.Term: // string(rune) / string(int)
			r := xv
			if r.W < 32 {
				_, signed, _ := intWidth(us)
				if signed {
					r = c.Sext(r, 32)
				} else {
					r = c.Zext(r, 32)
				}
			} else if r.W > 32 {
				// out-of-range ints become U+FFFD
				hi := c.Extract(r, r.W-1, 31)
				inRange := c.Eq(hi, c.BV(0, hi.W))
				if !ip.decide(inRange) {
					return mkStr(c, "�")
				}
				r = c.Extract(r, 31, 0)
			}
			return strOf(ip.encodeRune(r))
		}
	}
	if sl, ok := ud.(*types.Slice); ok {
		if s, isStr := x.(Str); isStr {
			w, _, _ := intWidth(sl.Elem())
			if w == 8 {
				arr := make([]Value, len(s.B))
				for i, b := range s.B {
					arr[i] = b
				}
				return Slice{Arr: &arr, Off: 0, Len: len(arr), Cap: len(arr)}
			}
			// []rune(string)
			var arr []Value
			for pos := 0; pos < len(s.B); {
				r, sz := ip.decodeRune(s, pos)
				arr = append(arr, r)
				pos += sz
			}
			if arr == nil {
				arr = []Value{}
			}
			return Slice{Arr: &arr, Off: 0, Len: len(arr), Cap: len(arr)}
		}
		if sx, isSl := x.(Slice); isSl {
			return sx
		}
	}
	// pointer/unsafe conversions
	if _, ok := ud.(*types.Pointer); ok {
		if _, ok := x.(*Value); ok {
			return x
		}
	}
	if b, ok := ud.(*types.Basic); ok && b.Kind() == types.UnsafePointer {
		if ip.inInit {
			return Poison{"unsafe.Pointer conversion"}
		}
		panic(unsupported("conversion to unsafe.Pointer"))
	}
	if types.Identical(ud, us) {
		return x
	}
	panic(unsupported(fmt.Sprintf("convert %v → %v (%T)", src, dst, x)))
}

// encodeRune returns the UTF-8 bytes of r (32-bit), forking on the width
// exactly as utf8.AppendRune does (invalid / surrogate → U+FFFD).
func (ip *Interp) encodeRune(r *sym.Term) []*sym.Term {
	c := ip.ctx
	if b, ok := ip.runeBytes[r]; ok {
		// r was decoded on this path from a valid UTF-8 sequence: encoding it
		// gives back exactly those bytes (lemma checked by `gosym selftest`).
		return b
	}
	if r.IsConst() {
		var buf [4]byte
		n := utf8.EncodeRune(buf[:], rune(int32(r.Val)))
		out := make([]*sym.Term, n)
		for i := range out {
			out[i] = c.BV(uint64(buf[i]), 8)
		}
		return out
	}
	k := func(v uint64) *sym.Term { return c.BV(v, 32) }
	ex := func(t *sym.Term, shift uint64, mask, or uint64) *sym.Term {
		s := c.Bin(sym.OpLshr, t, k(shift))
		s = c.Bin(sym.OpBAnd, s, k(mask))
		s = c.Bin(sym.OpBOr, s, k(or))
		return c.Extract(s, 7, 0)
	}
	if ip.decide(c.Cmp(sym.OpUle, r, k(0x7F))) {
		return []*sym.Term{c.Extract(r, 7, 0)}
	}
	if ip.decide(c.Cmp(sym.OpUle, r, k(0x7FF))) {
		return []*sym.Term{ex(r, 6, 0x1F, 0xC0), ex(r, 0, 0x3F, 0x80)}
	}
	// invalid: > MaxRune or surrogate → U+FFFD
	bad := c.Or(c.Cmp(sym.OpUlt, k(0x10FFFF), r),
		c.And(c.Cmp(sym.OpUle, k(0xD800), r), c.Cmp(sym.OpUle, r, k(0xDFFF))))
	if ip.decide(bad) {
		return []*sym.Term{c.BV(0xEF, 8), c.BV(0xBF, 8), c.BV(0xBD, 8)}
	}
	if ip.decide(c.Cmp(sym.OpUle, r, k(0xFFFF))) {
		return []*sym.Term{ex(r, 12, 0x0F, 0xE0), ex(r, 6, 0x3F, 0x80), ex(r, 0, 0x3F, 0x80)}
	}
	return []*sym.Term{ex(r, 18, 0x07, 0xF0), ex(r, 12, 0x3F, 0x80), ex(r, 6, 0x3F, 0x80), ex(r, 0, 0x3F, 0x80)}
}

// decodeRune decodes one rune at s[pos:] by interpreting the real
// utf8.DecodeRuneInString (forks on the UTF-8 shape).
func (ip *Interp) decodeRune(s Str, pos int) (*sym.Term, int) {
	b0 := s.B[pos]
	if b0.IsConst() && b0.Val < 0x80 {
		return ip.ctx.BV(b0.Val, 32), 1
	}
	// ASCII shortcut (exactly what DecodeRuneInString / the runtime do for b0 < RuneSelf)
	if !b0.IsConst() && ip.decide(ip.ctx.Cmp(sym.OpUlt, b0, ip.ctx.BV(0x80, 8))) {
		r := ip.ctx.Zext(b0, 32)
		if !ip.NoRuneProvenance {
			ip.runeBytes[r] = s.B[pos : pos+1 : pos+1]
		}
		return r, 1
	}
	// fully concrete fast path
	if cs, ok := strOf(s.B[pos:min(len(s.B), pos+4)]).Concrete(); ok {
		r, sz := utf8.DecodeRuneInString(cs)
		return ip.ctx.BV(uint64(uint32(r)), 32), sz
	}
	fn := ip.utf8Decode
	if fn == nil {
		p := ip.Prog.ImportedPackage("unicode/utf8")
		if p == nil {
			panic(unsupported("unicode/utf8 not loaded"))
		}
		fn = p.Func("DecodeRuneInString")
		ip.utf8Decode = fn
	}
	res := ip.callSSA(ip.curFrame, fn, []Value{strOf(s.B[pos:])}, nil).(Tuple)
	sz := res[1].(*sym.Term)
	if !sz.IsConst() {
		panic("decodeRune: symbolic size")
	}
	r := res[0].(*sym.Term)
	if sz.Val > 1 && !r.IsConst() && !ip.NoRuneProvenance {
		ip.runeBytes[r] = s.B[pos : pos+int(sz.Val) : pos+int(sz.Val)]
	}
	return r, int(sz.Val)
}

// ---------------------------------------------------------------- addressing

func (ip *Interp) fieldAddr(x Value, field int) Value {
	switch p := x.(type) {
	case *Value:
		if p == nil {
			ip.rtPanic("invalid memory address or nil pointer dereference")
		}
		s, ok := (*p).(Struct)
		if !ok {
			if po, isP := (*p).(Poison); isP && ip.inInit {
				return po
			}
			panic(fmt.Sprintf("fieldAddr: pointee is %T", *p))
		}
		return &s[field]
	case *SymPtr:
		return &SymPtr{Base: p.Base, Idx: p.Idx, Path: append(append([]int(nil), p.Path...), field)}
	case Poison:
		if ip.inInit {
			return p
		}
		panic(unsupported("fieldAddr on poison: " + p.Why))
	case *Native:
		panic(unsupported(fmt.Sprintf("field access on native object %T", p.V)))
	}
	panic(unsupported(fmt.Sprintf("fieldAddr on %T", x)))
}

func (ip *Interp) idx64(v Value, t types.Type) *sym.Term {
	i := v.(*sym.Term)
	if i.W < 64 {
		if _, signed, _ := intWidth(t); signed {
			return ip.ctx.Sext(i, 64)
		}
		return ip.ctx.Zext(i, 64)
	}
	return i
}

// boundsCheck forks on 0 <= i < n and panics in the out-of-range branch.
func (ip *Interp) boundsCheck(i *sym.Term, n int) {
	c := ip.ctx
	if i.IsConst() {
		if i.SignedVal() < 0 || i.SignedVal() >= int64(n) {
			ip.rtPanic(fmt.Sprintf("index out of range [%d] with length %d", i.SignedVal(), n))
		}
		return
	}
	in := c.Cmp(sym.OpUlt, i, c.BV(uint64(n), 64))
	if !ip.decide(in) {
		ip.rtPanic(fmt.Sprintf("index out of range [symbolic] with length %d", n))
	}
}

func (ip *Interp) indexAddr(xt types.Type, x Value, idx Value, it types.Type) Value {
	if p, ok := x.(Poison); ok && ip.inInit {
		return p
	}
	i := ip.idx64(idx, it)
	var base []Value
	switch xv := x.(type) {
	case Slice:
		if xv.Arr == nil {
			ip.boundsCheck(i, 0)
		}
		ip.boundsCheck(i, xv.Len)
		base = (*xv.Arr)[xv.Off : xv.Off+xv.Len]
	case *Value: // *array
		if xv == nil {
			ip.rtPanic("invalid memory address or nil pointer dereference")
		}
		arr := (*xv).(Array)
		ip.boundsCheck(i, len(arr))
		base = arr
	case *SymPtr:
		panic(unsupported("indexAddr through symbolic pointer"))
	default:
		panic(unsupported(fmt.Sprintf("indexAddr on %T", x)))
	}
	if i.IsConst() {
		return &base[i.Val]
	}
	return &SymPtr{Base: base, Idx: i}
}

func (ip *Interp) index(xt types.Type, x Value, idx Value, it types.Type) Value {
	i := ip.idx64(idx, it)
	switch xv := x.(type) {
	case Str:
		ip.boundsCheck(i, len(xv.B))
		if i.IsConst() {
			return xv.B[i.Val]
		}
		vals := make([]Value, len(xv.B))
		for k, b := range xv.B {
			vals[k] = b
		}
		return ip.iteTable(i, vals)
	case Array:
		ip.boundsCheck(i, len(xv))
		if i.IsConst() {
			return copyVal(xv[i.Val])
		}
		return ip.iteTable(i, xv)
	}
	panic(unsupported(fmt.Sprintf("index on %T", x)))
}

func (ip *Interp) slice(fr *frame, instr *ssa.Slice) Value {
	x := ip.get(fr, instr.X)
	if p, ok := x.(Poison); ok && ip.inInit {
		return p
	}
	var length, capacity int
	switch xv := x.(type) {
	case Str:
		length, capacity = len(xv.B), len(xv.B)
	case Slice:
		length, capacity = xv.Len, xv.Cap
	case *Value:
		if xv == nil {
			ip.rtPanic("invalid memory address or nil pointer dereference")
		}
		a := (*xv).(Array)
		length, capacity = len(a), len(a)
	default:
		panic(unsupported(fmt.Sprintf("slice of %T", x)))
	}
	_ = length
	bound := func(v ssa.Value, def int) *sym.Term {
		if v == nil {
			return ip.ctx.BV(uint64(def), 64)
		}
		return ip.idx64(ip.get(fr, v), v.Type())
	}
	lo := bound(instr.Low, 0)
	hiDefault := length
	hi := bound(instr.High, hiDefault)
	mx := bound(instr.Max, capacity)
	c := ip.ctx
	// checks: 0 <= lo <= hi <= max <= cap   (for strings hi <= len)
	limit := capacity
	if _, isStr := x.(Str); isStr {
		limit = length
	}
	ok := c.AndN(
		c.Cmp(sym.OpUle, lo, hi),
		c.Cmp(sym.OpUle, hi, mx),
		c.Cmp(sym.OpUle, mx, c.BV(uint64(limit), 64)),
	)
	if !ip.decide(ok) {
		lt, ht := "sym", "sym"
		if lo.IsConst() {
			lt = fmt.Sprint(lo.SignedVal())
		}
		if hi.IsConst() {
			ht = fmt.Sprint(hi.SignedVal())
		}
		ip.rtPanic(fmt.Sprintf("slice bounds out of range [%s:%s] with capacity %d", lt, ht, limit))
	}
	l := int(ip.concretizeRange(lo, 0, int64(limit)))
	h := int(ip.concretizeRange(hi, int64(l), int64(limit)))
	m := int(ip.concretizeRange(mx, int64(h), int64(limit)))
	switch xv := x.(type) {
	case Str:
		return strOf(xv.B[l:h:h])
	case Slice:
		if xv.Arr == nil {
			return Slice{}
		}
		return Slice{Arr: xv.Arr, Off: xv.Off + l, Len: h - l, Cap: m - l}
	case *Value:
		a := []Value((*xv).(Array))
		return Slice{Arr: &a, Off: l, Len: h - l, Cap: m - l}
	}
	panic("unreachable")
}

func (ip *Interp) typeAssert(instr *ssa.TypeAssert, x Value) Value {
	if p, ok := x.(Poison); ok && ip.inInit {
		return p
	}
	itf := x.(Iface)
	var ok bool
	var v Value
	if itf.T != nil {
		if di, isI := instr.AssertedType.Underlying().(*types.Interface); isI {
			if _, isNative := itf.V.(*nativeObjMethods); isNative {
				ok = true
			} else {
				ok = types.Implements(itf.T, di)
			}
			v = itf
		} else {
			ok = types.Identical(itf.T, instr.AssertedType)
			v = itf.V
		}
	}
	if instr.CommaOk {
		if !ok {
			v = ip.zero(instr.AssertedType)
		}
		return Tuple{v, ip.ctx.Bool(ok)}
	}
	if !ok {
		have := "nil"
		if itf.T != nil {
			have = itf.T.String()
		}
		ip.rtPanic(fmt.Sprintf("interface conversion: interface is %s, not %s", have, instr.AssertedType))
	}
	return v
}

// noteFork records where forks happen (debugging aid: GOSYM_FORKSITES=1).
func (ip *Interp) noteFork() {
	if ip.ForkSites == nil {
		return
	}
	site := "?"
	if ip.curFrame != nil {
		site = ip.curFrame.fn.String()
		if ip.curFrame.caller != nil {
			site += " <- " + ip.curFrame.caller.fn.String()
		}
	}
	ip.ForkSites[site]++
}
