// Package interp is a forking symbolic interpreter over go/ssa.
//
// Exploration is by re-execution: a path is identified by its decision
// sequence; the interpreter replays a prefix and then explores, reporting the
// alternatives it did not take. Memory is ordinary mutable Go data (as in
// golang.org/x/tools/go/ssa/interp); writes are journalled so that state
// created by package initialisers is restored between paths.
package interp

import (
	"fmt"
	"go/constant"
	"go/token"
	"go/types"
	"os"
	"strings"

	"golang.org/x/tools/go/ssa"

	"verif/gosym/solver"
	"verif/gosym/sym"
)

type Dec struct {
	K byte  // 'b' branch, 'c' choice, 'v' concretised value
	V int64 // branch: 0/1; choice: index; value: the value
}

type goPanic struct {
	val   Value
	msg   string // human-readable
	stack string
	// inHarness: raised by an instruction of a harness file (zz_verif_*.go), not by code under test
	inHarness bool
}

type pathEnd struct {
	outcome string
	msg     string
}

type deferred struct {
	fn   Value
	args []Value
	// for invoke-mode defers the method is already resolved into fn/args
}

type frame struct {
	fn        *ssa.Function
	env       map[ssa.Value]Value
	block     *ssa.BasicBlock
	prevBlock *ssa.BasicBlock
	defers    []deferred
	result    Value
	panicking bool
	panic     *goPanic
	caller    *frame
	freeVars  []Value
	params    []Value
}

type InputRec struct {
	Kind string // byte, bool, rune, int, split
	Term *sym.Term
	Val  int64 // for split (concrete on path)
}

type Observation struct {
	Label string
	V     Value
	T     types.Type
}

type Interp struct {
	Prog *ssa.Program
	ctx  *sym.Ctx
	Sol  *solver.Solver
	// Sol2, if set, re-decides every assertion query that Sol answered unsat (cross-check)
	Sol2         *solver.Solver
	XCheckBudget int // max unsat answers re-decided per worker

	globals    map[*ssa.Global]*Value
	initDone   map[*ssa.Package]bool
	InitAllow  func(path string) bool
	intrinsics map[string]Intrinsic
	shadow     map[*Value]any // side objects for intrinsic-modelled types (sync.Map, ...)
	EmbedFiles map[string]map[string][]byte

	inInit bool

	// per-path state
	pc       []*sym.Term
	pcSet    map[*sym.Term]bool
	prefix   []Dec
	pos      int
	trace    []Dec
	pending  []Work
	model    map[string]uint64
	journal  []func()
	steps    int
	MaxSteps int
	depth    int
	MaxDepth int
	inputs   []InputRec
	observes []Observation
	reached  []string
	kfs      []kfRec
	inconcl  []string // solver unknowns etc. on this path
	nsym     int

	MaxMapPerm int // max entries of a map that may be ranged with symbolic order
	// MapOrderPolicies > 0: instead of all permutations per range, one of this many
	// global iteration-order policies is chosen per path
	MapOrderPolicies int
	orderPolicy      int
	orderBaseline    bool
	fnIDs            map[*ssa.Function]uint64
	deviated         bool

	// statistics
	Stats struct {
		Steps       int64
		Paths       int
		Forks       int
		FastPath    int
		Decides     int
		Unsupported map[string]int
		EnumQueries int
		XChecked    int
		XDisagree   int
		XUnknown    int
	}
	Used     map[string]string // function → class (interp / intrinsic / stub)
	InitUsed map[string]string

	curFrame *frame
	Debug    bool

	violations       []Violation
	mapOrders        int
	nAsserts         int
	nAssertQueries   int
	utf8Decode       *ssa.Function
	InitProblems     []string
	runeBytes        map[*sym.Term][]*sym.Term // per path: rune term → the valid UTF-8 bytes it was decoded from
	NoRuneProvenance bool
	NoByteEnum       bool
	ForkSites        map[string]int
	stubMemo         map[string]Str
	fs               *fsState
	parsed           []parsedFile
	provided         map[string]Value
	allowFn          map[string]bool // functions of unmodelled packages that may be interpreted
}

type kfRec struct {
	ID   string
	Pred *sym.Term
}

type Intrinsic func(ip *Interp, fr *frame, args []Value) Value

func New(prog *ssa.Program, kind string, timeoutMs int) (*Interp, error) {
	ctx := sym.NewCtx()
	sol, err := solver.New(kind, ctx, timeoutMs)
	if err != nil {
		return nil, err
	}
	ip := &Interp{
		Prog: prog, ctx: ctx, Sol: sol,
		globals:    map[*ssa.Global]*Value{},
		initDone:   map[*ssa.Package]bool{},
		intrinsics: map[string]Intrinsic{},
		shadow:     map[*Value]any{},
		MaxSteps:   2_000_000,
		MaxDepth:   400,
		MaxMapPerm: 4,
		Used:       map[string]string{},
		allowFn:    map[string]bool{},
	}
	ip.Stats.Unsupported = map[string]int{}
	registerIntrinsics(ip)
	registerUnicode(ip)
	return ip, nil
}

func (ip *Interp) Ctx() *sym.Ctx { return ip.ctx }

func (ip *Interp) Close() {
	ip.Sol.Close()
	if ip.Sol2 != nil {
		ip.Sol2.Close()
	}
}

// EnableCrossCheck starts a second solver of the given kind.
func (ip *Interp) EnableCrossCheck(kind string, timeoutMs int) error {
	s2, err := solver.New(kind, ip.ctx, timeoutMs)
	if err != nil {
		return err
	}
	ip.Sol2 = s2
	ip.XCheckBudget = 1500
	return nil
}

// ---------------------------------------------------------------- memory

func (ip *Interp) write(p *Value, v Value) {
	old := *p
	ip.journal = append(ip.journal, func() { *p = old })
	*p = v
}

func (ip *Interp) undoAll() {
	for i := len(ip.journal) - 1; i >= 0; i-- {
		ip.journal[i]()
	}
	ip.journal = ip.journal[:0]
}

func (ip *Interp) store(T types.Type, addr Value, v Value) {
	switch a := addr.(type) {
	case *Value:
		if a == nil {
			ip.rtPanic("invalid memory address or nil pointer dereference")
		}
		ip.storeAt(a, v)
	case *SymPtr:
		// concretise the index, then store
		n := len(a.Base)
		i := ip.concretizeRange(a.Idx, 0, int64(n-1))
		p := &a.Base[i]
		for _, f := range a.Path {
			p = &(*p).(Struct)[f]
		}
		ip.storeAt(p, v)
	case Poison:
		panic(unsupported("store through poison pointer: " + a.Why))
	default:
		panic(unsupported(fmt.Sprintf("store to %T", addr)))
	}
}

func (ip *Interp) storeAt(p *Value, v Value) {
	switch cur := (*p).(type) {
	case Struct:
		rhs, ok := v.(Struct)
		if !ok {
			panic(fmt.Sprintf("storeAt: struct <- %T", v))
		}
		for i := range cur {
			ip.storeAt(&cur[i], rhs[i])
		}
		return
	case Array:
		rhs := v.(Array)
		for i := range cur {
			ip.storeAt(&cur[i], rhs[i])
		}
		return
	}
	ip.write(p, v)
}

func (ip *Interp) load(T types.Type, addr Value) Value {
	switch a := addr.(type) {
	case *Value:
		if a == nil {
			ip.rtPanic("invalid memory address or nil pointer dereference")
		}
		return copyVal(*a)
	case *SymPtr:
		return ip.loadSym(a)
	case Poison:
		if ip.inInit {
			return a
		}
		panic(unsupported("load through poison pointer: " + a.Why))
	case *Native:
		panic(unsupported(fmt.Sprintf("load through native pointer %T", a.V)))
	}
	panic(unsupported(fmt.Sprintf("load from %T", addr)))
}

func follow(v Value, path []int) Value {
	for _, f := range path {
		v = v.(Struct)[f]
	}
	return v
}

// loadSym builds ite(idx==0, base[0], ite(idx==1, ...)) merging equal runs.
func (ip *Interp) loadSym(a *SymPtr) Value {
	n := len(a.Base)
	vals := make([]Value, n)
	for i := 0; i < n; i++ {
		vals[i] = follow(a.Base[i], a.Path)
	}
	return ip.iteTable(a.Idx, vals)
}

func (ip *Interp) iteTable(idx *sym.Term, vals []Value) Value {
	switch v0 := vals[0].(type) {
	case *sym.Term:
		// runs of equal terms
		type run struct {
			hi int
			v  *sym.Term
		}
		var runs []run
		for i, v := range vals {
			t, ok := v.(*sym.Term)
			if !ok {
				panic(unsupported("symbolic index into heterogeneous table"))
			}
			if len(runs) > 0 && runs[len(runs)-1].v == t {
				runs[len(runs)-1].hi = i
			} else {
				runs = append(runs, run{i, t})
			}
		}
		res := runs[len(runs)-1].v
		for i := len(runs) - 2; i >= 0; i-- {
			c := ip.ctx.Cmp(sym.OpUle, idx, ip.ctx.BV(uint64(runs[i].hi), idx.W))
			res = ip.ctx.Ite(c, runs[i].v, res)
		}
		return res
	case Struct:
		out := make(Struct, len(v0))
		for f := range v0 {
			col := make([]Value, len(vals))
			for i, v := range vals {
				col[i] = v.(Struct)[f]
			}
			out[f] = ip.iteTable(idx, col)
		}
		return out
	case Array:
		out := make(Array, len(v0))
		for f := range v0 {
			col := make([]Value, len(vals))
			for i, v := range vals {
				col[i] = v.(Array)[f]
			}
			out[f] = ip.iteTable(idx, col)
		}
		return out
	}
	// non-scalar elements (strings, pointers...): concretise
	i := ip.concretizeRange(idx, 0, int64(len(vals)-1))
	return copyVal(vals[i])
}

// ---------------------------------------------------------------- panics

func (ip *Interp) rtPanic(msg string) {
	full := "runtime error: " + msg
	panic(&goPanic{val: Iface{T: rtErrorType, V: mkStr(ip.ctx, full)}, msg: full, stack: ip.stackString(), inHarness: ip.topIsHarness()})
}

var rtErrorType = types.NewNamed(types.NewTypeName(token.NoPos, nil, "runtimeError", nil), types.Typ[types.String], nil)

// topIsHarness reports whether the innermost interpreted frame belongs to a harness file.
func (ip *Interp) topIsHarness() bool {
	f := ip.curFrame
	if f == nil || f.fn == nil {
		return false
	}
	fn := f.fn
	for fn.Parent() != nil {
		fn = fn.Parent()
	}
	if !fn.Pos().IsValid() {
		return false
	}
	return strings.Contains(ip.Prog.Fset.Position(fn.Pos()).Filename, "zz_verif_")
}

func (ip *Interp) stackString() string {
	var sb strings.Builder
	n := 0
	for f := ip.curFrame; f != nil && n < 12; f = f.caller {
		if n > 0 {
			sb.WriteString(" <- ")
		}
		sb.WriteString(f.fn.String())
		n++
	}
	return sb.String()
}

func (ip *Interp) endPath(outcome, msg string) {
	panic(pathEnd{outcome, msg})
}

// ---------------------------------------------------------------- values of operands

func (ip *Interp) get(fr *frame, v ssa.Value) Value {
	switch v := v.(type) {
	case *ssa.Const:
		return ip.constVal(v)
	case *ssa.Global:
		return ip.global(v)
	case *ssa.Function:
		return v
	case *ssa.Builtin:
		return v
	case *ssa.FreeVar:
		for i, fv := range fr.fn.FreeVars {
			if fv == v {
				return fr.freeVars[i]
			}
		}
		panic("free var not found")
	case *ssa.Parameter:
		for i, p := range fr.fn.Params {
			if p == v {
				return fr.params[i]
			}
		}
		panic("param not found")
	}
	r, ok := fr.env[v]
	if !ok {
		panic(fmt.Sprintf("no value for %T %s = %s in %s", v, v.Name(), v, fr.fn))
	}
	return r
}

func (ip *Interp) global(g *ssa.Global) *Value {
	if p, ok := ip.globals[g]; ok {
		return p
	}
	p := new(Value)
	*p = ip.zero(g.Type().(*types.Pointer).Elem())
	if g.Pkg != nil {
		if data, ok := ip.EmbedFiles[g.Pkg.Pkg.Path()][g.Name()]; ok {
			// //go:embed variable ([]byte or string)
			if _, isSlice := (*p).(Slice); isSlice {
				*p = ip.bytesSliceValue(mkStr(ip.ctx, string(data)).B)
			} else {
				*p = mkStr(ip.ctx, string(data))
			}
		}
	}
	ip.globals[g] = p
	if !ip.inInit {
		// created lazily on a path: must vanish with the path
		ip.journal = append(ip.journal, func() { delete(ip.globals, g) })
	}
	return p
}

func (ip *Interp) constVal(c *ssa.Const) Value {
	t := c.Type()
	if c.Value == nil {
		return ip.zero(t)
	}
	if w, signed, ok := intWidth(t); ok {
		v := constant.ToInt(c.Value)
		if signed {
			i, _ := constant.Int64Val(v)
			return ip.ctx.BV(uint64(i), w)
		}
		u, _ := constant.Uint64Val(v)
		return ip.ctx.BV(u, w)
	}
	if isBoolT(t) {
		return ip.ctx.Bool(constant.BoolVal(c.Value))
	}
	if isStringT(t) {
		if c.Value.Kind() == constant.String {
			return mkStr(ip.ctx, constant.StringVal(c.Value))
		}
	}
	if isFloatT(t) {
		f, _ := constant.Float64Val(constant.ToFloat(c.Value))
		return Float{f}
	}
	panic(unsupported("constant of type " + t.String()))
}

// ---------------------------------------------------------------- calls

func (ip *Interp) Call(fn Value, args []Value) Value {
	return ip.call(ip.curFrame, fn, args)
}

func (ip *Interp) call(caller *frame, fn Value, args []Value) Value {
	switch f := fn.(type) {
	case *ssa.Function:
		if f == nil {
			ip.rtPanic("invalid memory address or nil pointer dereference (nil func)")
		}
		return ip.callSSA(caller, f, args, nil)
	case *Closure:
		return ip.callSSA(caller, f.Fn, args, f.Env)
	case *ssa.Builtin:
		return ip.callBuiltin(caller, f, args)
	case *NativeFunc:
		ip.Used[f.Name] = "intrinsic"
		return f.Call(ip, args)
	case nil:
		ip.rtPanic("invalid memory address or nil pointer dereference (nil func)")
	case Poison:
		if ip.inInit {
			return f
		}
		panic(unsupported("call of poison: " + f.Why))
	}
	panic(unsupported(fmt.Sprintf("call of %T", fn)))
}

func stripTypeArgs(s string) string {
	var sb strings.Builder
	depth := 0
	for _, r := range s {
		switch {
		case r == '[':
			depth++
		case r == ']':
			depth--
		case depth == 0:
			sb.WriteRune(r)
		}
	}
	return sb.String()
}

func fnKey(f *ssa.Function) string {
	// Instantiations print as "pkg.F[T]" — intrinsics are keyed on the origin too.
	return f.String()
}

func (ip *Interp) callSSA(caller *frame, fn *ssa.Function, args []Value, env []Value) (result Value) {
	name := fnKey(fn)
	if in, ok := ip.intrinsics[name]; ok && (len(ip.provided) == 0 || ip.provided["real:"+name] == nil) {
		// verifsym.Provide("real:<function>", true) makes a harness run the real
		// body of a function that is otherwise replaced by a contract stub
		if ip.Used[name] == "" {
			ip.Used[name] = "intrinsic"
		}
		return in(ip, caller, args)
	}
	if strings.Contains(name, "[") {
		// generic instantiation: intrinsics are keyed on the name without type arguments
		gk := stripTypeArgs(name)
		if in, ok := ip.intrinsics[gk]; ok {
			ip.Used[gk] = "intrinsic"
			return in(ip, caller, args)
		}
	}
	if fn.Name() == "init" && fn.Synthetic != "" && fn.Pkg != nil && fn.Signature.Recv() == nil && strings.HasPrefix(fn.Synthetic, "package init") {
		ip.initPackage(fn.Pkg)
		return nil
	}
	if fn.Blocks == nil {
		if ip.inInit {
			return Poison{"external function " + name}
		}
		ip.Stats.Unsupported[name]++
		panic(unsupported("external function without body: " + name))
	}
	if ip.Used[name] == "" {
		if p := fn.Package(); p != nil && ip.InitAllow != nil && !ip.InitAllow(p.Pkg.Path()) && !ip.allowFn[name] {
			if ip.inInit {
				return Poison{"call into unmodelled package " + p.Pkg.Path()}
			}
			ip.Stats.Unsupported[name]++
			panic(unsupported("call into a package that is neither interpreted nor modelled: " + name))
		}
		ip.Used[name] = "interpreted"
	}
	ip.depth++
	if ip.depth > ip.MaxDepth {
		ip.depth--
		// Go would die of stack overflow (fatal, not recoverable)
		ip.endPath("stackoverflow", "call depth > "+fmt.Sprint(ip.MaxDepth)+" in "+name)
	}
	fr := &frame{fn: fn, env: make(map[ssa.Value]Value, 16), caller: caller, freeVars: env, params: args}
	fr.block = fn.Blocks[0]
	saved := ip.curFrame
	ip.curFrame = fr
	defer func() {
		ip.curFrame = saved
		ip.depth--
		if ip.inInit {
			if r := recover(); r != nil {
				if pr, ok := r.(poisonReturn); ok {
					ip.noteInitProblem(pr.why)
					result = Poison{pr.why}
					return
				}
				panic(r)
			}
		}
	}()
	for fr.block != nil {
		ip.runFrame(fr)
	}
	return fr.result
}

func (ip *Interp) noteInitProblem(why string) {
	for _, p := range ip.InitProblems {
		if p == why {
			return
		}
	}
	if len(ip.InitProblems) < 200 {
		ip.InitProblems = append(ip.InitProblems, why)
	}
}

// runFrame executes blocks until return; Go panics are turned into the
// function's deferred calls + recover block, mirroring go/ssa/interp.
func (ip *Interp) runFrame(fr *frame) {
	defer func() {
		if fr.block == nil {
			return // normal return
		}
		r := recover()
		gp, ok := r.(*goPanic)
		if !ok {
			if u, isU := r.(unsupportedErr); isU && u.stack == "" {
				u.stack = ip.stackString()
				panic(u)
			}
			panic(r) // pathEnd, unsupported, engine bug: propagate untouched
		}
		fr.panicking = true
		fr.panic = gp
		ip.curFrame = fr
		ip.runDefers(fr)
		fr.block = fr.fn.Recover
		if fr.block == nil {
			// recovered but no recover block: return zero values
			fr.result = ip.zeroResult(fr.fn)
		}
	}()
	for {
		blk := fr.block
		for _, instr := range blk.Instrs {
			ip.steps++
			if ip.steps > ip.MaxSteps {
				ip.endPath("unwind", fmt.Sprintf("step budget %d exhausted in %s", ip.MaxSteps, fr.fn))
			}
			var k kont
			if ip.inInit {
				k = ip.visitTolerant(fr, instr)
			} else {
				k = ip.visit(fr, instr)
			}
			switch k {
			case kReturn:
				fr.block = nil
				return
			case kJump:
				goto next
			}
		}
		panic("block fell off end: " + fr.fn.String())
	next:
	}
}

func (ip *Interp) zeroResult(fn *ssa.Function) Value {
	res := fn.Signature.Results()
	switch res.Len() {
	case 0:
		return nil
	case 1:
		return ip.zero(res.At(0).Type())
	}
	return ip.zero(res)
}

func (ip *Interp) runDefers(fr *frame) {
	for len(fr.defers) > 0 {
		d := fr.defers[len(fr.defers)-1]
		fr.defers = fr.defers[:len(fr.defers)-1]
		func() {
			defer func() {
				if r := recover(); r != nil {
					gp, ok := r.(*goPanic)
					if !ok {
						panic(r)
					}
					// a deferred call panicked: replaces the current panic
					fr.panicking = true
					fr.panic = gp
				}
			}()
			ip.call(fr, d.fn, d.args)
		}()
	}
	if fr.panicking {
		panic(fr.panic)
	}
}

type poisonReturn struct{ why string }

// visitTolerant is used while running package initialisers: an operation the
// engine cannot model yields Poison (whose later use on a path is reported as
// unsupported) instead of aborting the whole initialiser.
func (ip *Interp) visitTolerant(fr *frame, instr ssa.Instruction) (k kont) {
	defer func() {
		r := recover()
		if r == nil {
			return
		}
		switch r.(type) {
		case *goPanic, pathEnd, poisonReturn:
			panic(r)
		}
		why := fmt.Sprint(r)
		if len(why) > 160 {
			why = why[:160]
		}
		if v, ok := instr.(ssa.Value); ok {
			if _, isCall := instr.(*ssa.Call); !isCall || true {
				fr.env[v] = Poison{why}
				k = kNext
				return
			}
		}
		switch instr.(type) {
		case *ssa.Store, *ssa.MapUpdate, *ssa.DebugRef, *ssa.Defer, *ssa.RunDefers:
			k = kNext
			return
		}
		// control flow depends on something unmodelled: give up on this function
		panic(poisonReturn{why + " in " + fr.fn.String()})
	}()
	return ip.visit(fr, instr)
}

type kont int

const (
	kNext kont = iota
	kJump
	kReturn
)

func (ip *Interp) visit(fr *frame, instr ssa.Instruction) kont {
	switch instr := instr.(type) {
	case *ssa.DebugRef:
	case *ssa.UnOp:
		fr.env[instr] = ip.unop(fr, instr)
	case *ssa.BinOp:
		fr.env[instr] = ip.binop(instr.Op, instr.X.Type(), ip.get(fr, instr.X), ip.get(fr, instr.Y))
	case *ssa.Call:
		fn, args := ip.prepareCall(fr, &instr.Call)
		fr.env[instr] = ip.call(fr, fn, args)
	case *ssa.ChangeInterface:
		fr.env[instr] = ip.get(fr, instr.X)
	case *ssa.ChangeType:
		fr.env[instr] = ip.get(fr, instr.X)
	case *ssa.Convert:
		fr.env[instr] = ip.conv(instr.Type(), instr.X.Type(), ip.get(fr, instr.X))
	case *ssa.MultiConvert:
		fr.env[instr] = ip.conv(instr.Type(), instr.X.Type(), ip.get(fr, instr.X))
	case *ssa.SliceToArrayPointer:
		panic(unsupported("SliceToArrayPointer"))
	case *ssa.MakeInterface:
		fr.env[instr] = Iface{T: instr.X.Type(), V: ip.get(fr, instr.X)}
	case *ssa.Extract:
		fr.env[instr] = ip.get(fr, instr.Tuple).(Tuple)[instr.Index]
	case *ssa.Slice:
		fr.env[instr] = ip.slice(fr, instr)
	case *ssa.Return:
		switch len(instr.Results) {
		case 0:
		case 1:
			fr.result = ip.get(fr, instr.Results[0])
		default:
			res := make(Tuple, len(instr.Results))
			for i, r := range instr.Results {
				res[i] = ip.get(fr, r)
			}
			fr.result = res
		}
		return kReturn
	case *ssa.RunDefers:
		ip.runDefers(fr)
	case *ssa.Panic:
		v := ip.get(fr, instr.X)
		panic(&goPanic{val: v, msg: ip.panicText(v), stack: ip.stackString(), inHarness: ip.topIsHarness()})
	case *ssa.Send, *ssa.Go, *ssa.Select, *ssa.MakeChan:
		panic(unsupported(fmt.Sprintf("%T (concurrency)", instr)))
	case *ssa.Store:
		ip.store(instr.Val.Type(), ip.get(fr, instr.Addr), ip.get(fr, instr.Val))
	case *ssa.If:
		c := ip.get(fr, instr.Cond)
		succ := 1
		if ip.truth(c) {
			succ = 0
		}
		fr.prevBlock, fr.block = fr.block, fr.block.Succs[succ]
		return kJump
	case *ssa.Jump:
		fr.prevBlock, fr.block = fr.block, fr.block.Succs[0]
		return kJump
	case *ssa.Defer:
		fn, args := ip.prepareCall(fr, &instr.Call)
		if instr.DeferStack != nil {
			panic(unsupported("defer with explicit DeferStack"))
		}
		fr.defers = append(fr.defers, deferred{fn: fn, args: args})
	case *ssa.Alloc:
		p := new(Value)
		*p = ip.zero(instr.Type().(*types.Pointer).Elem())
		fr.env[instr] = p
	case *ssa.MakeSlice:
		n := ip.concretizeLen(ip.get(fr, instr.Len), "makeslice: len out of range")
		c := ip.concretizeLen(ip.get(fr, instr.Cap), "makeslice: cap out of range")
		if c < n {
			ip.rtPanic("makeslice: cap out of range")
		}
		et := instr.Type().Underlying().(*types.Slice).Elem()
		arr := make([]Value, c)
		for i := range arr {
			arr[i] = ip.zero(et)
		}
		fr.env[instr] = Slice{Arr: &arr, Off: 0, Len: n, Cap: c}
	case *ssa.MakeMap:
		fr.env[instr] = ip.newMap(instr.Type().Underlying().(*types.Map))
	case *ssa.Range:
		fr.env[instr] = ip.rangeIter(instr.X.Type(), ip.get(fr, instr.X))
	case *ssa.Next:
		fr.env[instr] = ip.get(fr, instr.Iter).(iterator).next(ip)
	case *ssa.FieldAddr:
		fr.env[instr] = ip.fieldAddr(ip.get(fr, instr.X), instr.Field)
	case *ssa.Field:
		x := ip.get(fr, instr.X)
		if p, ok := x.(Poison); ok {
			fr.env[instr] = p
		} else {
			fr.env[instr] = copyVal(x.(Struct)[instr.Field])
		}
	case *ssa.IndexAddr:
		fr.env[instr] = ip.indexAddr(instr.X.Type(), ip.get(fr, instr.X), ip.get(fr, instr.Index), instr.Index.Type())
	case *ssa.Index:
		fr.env[instr] = ip.index(instr.X.Type(), ip.get(fr, instr.X), ip.get(fr, instr.Index), instr.Index.Type())
	case *ssa.Lookup:
		fr.env[instr] = ip.lookup(instr, ip.get(fr, instr.X), ip.get(fr, instr.Index))
	case *ssa.MapUpdate:
		m := ip.get(fr, instr.Map)
		ip.mapUpdate(m, ip.get(fr, instr.Key), ip.get(fr, instr.Value))
	case *ssa.TypeAssert:
		fr.env[instr] = ip.typeAssert(instr, ip.get(fr, instr.X))
	case *ssa.MakeClosure:
		env := make([]Value, len(instr.Bindings))
		for i, b := range instr.Bindings {
			env[i] = ip.get(fr, b)
		}
		fr.env[instr] = &Closure{Fn: instr.Fn.(*ssa.Function), Env: env}
	case *ssa.Phi:
		for i, pred := range instr.Block().Preds {
			if pred == fr.prevBlock {
				fr.env[instr] = ip.get(fr, instr.Edges[i])
				break
			}
		}
	default:
		panic(unsupported(fmt.Sprintf("instruction %T", instr)))
	}
	return kNext
}

func (ip *Interp) panicText(v Value) string {
	if i, ok := v.(Iface); ok {
		if i.T == nil {
			return "panic(nil)"
		}
		if s, ok := i.V.(Str); ok {
			return s.String()
		}
		// error values: try Error()
		if m := ip.findMethod(i.T, "Error"); m != nil {
			var txt string
			func() {
				defer func() {
					if r := recover(); r != nil {
						if _, isEnd := r.(pathEnd); isEnd {
							panic(r)
						}
						txt = fmt.Sprintf("<%v value>", i.T)
					}
				}()
				r := ip.call(ip.curFrame, m, []Value{i.V})
				if s, ok := r.(Str); ok {
					txt = s.String()
				}
			}()
			return txt
		}
		return fmt.Sprintf("<%v value>", i.T)
	}
	return fmt.Sprintf("%T", v)
}

func (ip *Interp) findMethod(t types.Type, name string) *ssa.Function {
	ms := ip.Prog.MethodSets.MethodSet(t)
	for i := 0; i < ms.Len(); i++ {
		if ms.At(i).Obj().Name() == name {
			return ip.Prog.MethodValue(ms.At(i))
		}
	}
	return nil
}

func (ip *Interp) prepareCall(fr *frame, c *ssa.CallCommon) (Value, []Value) {
	var fn Value
	var args []Value
	if c.Method == nil {
		fn = ip.get(fr, c.Value)
	} else {
		recv := ip.get(fr, c.Value)
		if p, ok := recv.(Poison); ok {
			return p, nil
		}
		iface := recv.(Iface)
		if iface.T == nil {
			ip.rtPanic("invalid memory address or nil pointer dereference (method call on nil interface)")
		}
		if nf, ok := iface.V.(*nativeObjMethods); ok {
			fn = nf.method(c.Method.Name())
		} else {
			f := ip.lookupMethod(iface.T, c.Method)
			if f == nil {
				panic(unsupported(fmt.Sprintf("method %s not found on %v", c.Method.Name(), iface.T)))
			}
			fn = f
			args = append(args, iface.V)
		}
	}
	for _, a := range c.Args {
		args = append(args, ip.get(fr, a))
	}
	return fn, args
}

type nativeObjMethods struct {
	methods map[string]*NativeFunc
	obj     any
}

func (n *nativeObjMethods) method(name string) Value {
	m := n.methods[name]
	if m == nil {
		panic(unsupported("native object has no method " + name))
	}
	return m
}

func (ip *Interp) lookupMethod(t types.Type, m *types.Func) *ssa.Function {
	return ip.Prog.LookupMethod(t, m.Pkg(), m.Name())
}

// ---------------------------------------------------------------- package init

func (ip *Interp) initPackage(p *ssa.Package) {
	if ip.initDone[p] {
		return
	}
	ip.initDone[p] = true
	if ip.InitAllow != nil && !ip.InitAllow(p.Pkg.Path()) {
		return
	}
	initFn := p.Func("init")
	if initFn == nil || initFn.Blocks == nil {
		return
	}
	if ip.Debug {
		fmt.Fprintln(os.Stderr, "init", p.Pkg.Path())
	}
	// run body directly (bypassing the interception in callSSA)
	fr := &frame{fn: initFn, env: map[ssa.Value]Value{}, caller: ip.curFrame}
	fr.block = initFn.Blocks[0]
	saved := ip.curFrame
	ip.curFrame = fr
	defer func() {
		ip.curFrame = saved
		if r := recover(); r != nil {
			if pr, ok := r.(poisonReturn); ok {
				ip.noteInitProblem("INIT ABORTED " + p.Pkg.Path() + ": " + pr.why)
				return
			}
			panic(r)
		}
	}()
	for fr.block != nil {
		ip.runFrame(fr)
	}
}

// RunInit runs the initialiser of pkg (and, through it, allowed dependencies)
// concretely. Unsupported operations yield Poison instead of failing.
func (ip *Interp) RunInit(p *ssa.Package) (err error) {
	ip.inInit = true
	defer func() {
		ip.inInit = false
		ip.journal = ip.journal[:0]
		if r := recover(); r != nil {
			switch r := r.(type) {
			case *goPanic:
				err = fmt.Errorf("init of %s panicked: %s at %s", p.Pkg.Path(), r.msg, r.stack)
			case unsupportedErr:
				err = fmt.Errorf("init of %s: %v at %s", p.Pkg.Path(), r, ip.stackString())
			case pathEnd:
				err = fmt.Errorf("init of %s: %s %s", p.Pkg.Path(), r.outcome, r.msg)
			default:
				panic(r)
			}
		}
	}()
	saveMax := ip.MaxSteps
	ip.MaxSteps = 200_000_000
	ip.steps = 0
	defer func() { ip.MaxSteps = saveMax }()
	ip.initPackage(p)
	return nil
}
