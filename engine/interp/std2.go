package interp

import (
	"golang.org/x/text/cases"
	"golang.org/x/text/language"
	"golang.org/x/tools/go/ssa"

	"verif/gosym/sym"
)

// interpretBody runs fn's real body, bypassing any intrinsic registered for it.
func (ip *Interp) interpretBody(name string, args []Value) Value {
	in := ip.intrinsics[name]
	delete(ip.intrinsics, name)
	defer func() { ip.intrinsics[name] = in }()
	fn := ip.lookupFunc(name)
	return ip.callSSA(ip.curFrame, fn, args, nil)
}

func (ip *Interp) lookupFunc(name string) *ssa.Function {
	// name = "pkg/path.Func"
	for i := len(name) - 1; i >= 0; i-- {
		if name[i] == '.' {
			p := ip.Prog.ImportedPackage(name[:i])
			if p == nil {
				panic(unsupported("package not loaded: " + name[:i]))
			}
			return p.Func(name[i+1:])
		}
	}
	panic("lookupFunc: " + name)
}

func (ip *Interp) allASCII(s Str) bool {
	c := ip.ctx
	all := c.True
	for _, b := range s.B {
		all = c.And(all, c.Cmp(sym.OpUlt, b, c.BV(0x80, 8)))
	}
	return ip.decide(all)
}

func (ip *Interp) asciiCase(s Str, lower bool) Str {
	c := ip.ctx
	out := make([]*sym.Term, len(s.B))
	for i, b := range s.B {
		var in *sym.Term
		var nb *sym.Term
		if lower {
			in = c.And(c.Cmp(sym.OpUle, c.BV('A', 8), b), c.Cmp(sym.OpUle, b, c.BV('Z', 8)))
			nb = c.Bin(sym.OpAdd, b, c.BV(32, 8))
		} else {
			in = c.And(c.Cmp(sym.OpUle, c.BV('a', 8), b), c.Cmp(sym.OpUle, b, c.BV('z', 8)))
			nb = c.Bin(sym.OpSub, b, c.BV(32, 8))
		}
		out[i] = c.Ite(in, nb, b)
	}
	return strOf(out)
}

// newTitleCaser: a cases.Caser is stateful and must not be shared between goroutines
// (workers): every interpreter gets its own.
func newTitleCaser() cases.Caser { return cases.Title(language.Und) }

func registerStd2(ip *Interp) {
	titleCaser := newTitleCaser()
	for _, n := range []string{"internal/stringslite.Clone", "strings.Clone", "bytes.Clone"} {
		ip.reg(n, func(ip *Interp, fr *frame, a []Value) Value {
			if sl, ok := a[0].(Slice); ok {
				if sl.Arr == nil {
					return sl
				}
				return ip.bytesSliceValue(sliceBytes(sl))
			}
			return a[0]
		})
	}
	// strings.ToLower / ToUpper: exact; ASCII strings are mapped bytewise without
	// forking, anything else runs the real implementation.
	for _, x := range []struct {
		name  string
		lower bool
	}{{"strings.ToLower", true}, {"strings.ToUpper", false}} {
		x := x
		ip.reg(x.name, func(ip *Interp, fr *frame, a []Value) Value {
			s := a[0].(Str)
			if ip.allASCII(s) {
				return ip.asciiCase(s, x.lower)
			}
			return ip.interpretBody(x.name, a)
		})
	}
	// golang.org/x/text/cases.Title(language.Und).String:
	//  - concrete input: evaluated natively with the same x/text version the repository pins;
	//  - symbolic ASCII word of the shapes camelcase.Split produces (letters then
	//    digits, or no letter at all): exact model (first letter upper, rest lower);
	//  - anything else: contract stub (total, arbitrary text of the same length).
	ip.intrinsics["(golang.org/x/text/cases.Caser).String"] = func(ip *Interp, fr *frame, a []Value) Value {
		in := a[1].(Str)
		if cs, ok := in.Concrete(); ok {
			ip.Used["(golang.org/x/text/cases.Caser).String [concrete: native x/text v0.24.0]"] = "intrinsic"
			return mkStr(ip.ctx, titleCaser.String(cs))
		}
		if ip.allASCII(in) {
			if out, ok := ip.asciiTitleWord(in); ok {
				ip.Used["(golang.org/x/text/cases.Caser).String [ASCII letter-free or alphanumeric word: exact model]"] = "intrinsic"
				return out
			}
		}
		ip.Used["(golang.org/x/text/cases.Caser).String [other input: total, arbitrary result]"] = "stub"
		return ip.stubString("cases.Caser.String", in, len(in.B))
	}
}

// asciiTitleWord models Title on an ASCII word that is letter-free (identity) or
// purely alphanumeric (first letter upper-cased, other letters lower-cased,
// digits unchanged). These are the only shapes camelcase.Split hands to the
// converters; ok=false for any other shape. Validated against x/text by
// `gosym selftest`.
func (ip *Interp) asciiTitleWord(w Str) (Str, bool) {
	c := ip.ctx
	isUpper := func(b *sym.Term) *sym.Term {
		return c.And(c.Cmp(sym.OpUle, c.BV('A', 8), b), c.Cmp(sym.OpUle, b, c.BV('Z', 8)))
	}
	isLower := func(b *sym.Term) *sym.Term {
		return c.And(c.Cmp(sym.OpUle, c.BV('a', 8), b), c.Cmp(sym.OpUle, b, c.BV('z', 8)))
	}
	isLetter := func(b *sym.Term) *sym.Term { return c.Or(isUpper(b), isLower(b)) }
	isDigit := func(b *sym.Term) *sym.Term {
		return c.And(c.Cmp(sym.OpUle, c.BV('0', 8), b), c.Cmp(sym.OpUle, b, c.BV('9', 8)))
	}
	if len(w.B) == 0 {
		return w, true
	}
	none := c.True
	alnum := c.True
	for _, b := range w.B {
		none = c.And(none, c.Not(isLetter(b)))
		alnum = c.And(alnum, c.Or(isLetter(b), isDigit(b)))
	}
	if ip.decide(none) {
		return w, true
	}
	if !ip.decide(alnum) {
		return Str{}, false
	}
	return TitleAlnumModel(c, w.B), true
}

// TitleAlnumModel is the fork-free formula for Title on an alphanumeric ASCII word.
func TitleAlnumModel(c *sym.Ctx, in []*sym.Term) Str {
	isUpper := func(b *sym.Term) *sym.Term {
		return c.And(c.Cmp(sym.OpUle, c.BV('A', 8), b), c.Cmp(sym.OpUle, b, c.BV('Z', 8)))
	}
	isLower := func(b *sym.Term) *sym.Term {
		return c.And(c.Cmp(sym.OpUle, c.BV('a', 8), b), c.Cmp(sym.OpUle, b, c.BV('z', 8)))
	}
	out := make([]*sym.Term, len(in))
	noLetterBefore := c.True
	for i, b := range in {
		up := c.Ite(isLower(b), c.Bin(sym.OpSub, b, c.BV(32, 8)), b)
		lo := c.Ite(isUpper(b), c.Bin(sym.OpAdd, b, c.BV(32, 8)), b)
		out[i] = c.Ite(noLetterBefore, up, lo)
		noLetterBefore = c.And(noLetterBefore, c.Not(c.Or(isUpper(b), isLower(b))))
	}
	return strOf(out)
}

// TitleNative is the real x/text function (used for concrete inputs and by selftest).
func TitleNative(s string) string { return newTitleCaser().String(s) }

// StrBytes exposes the byte terms of a string value (selftest).
func StrBytes(s Str) []*sym.Term { return s.B }
