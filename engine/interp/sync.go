package interp

import (
	"go/types"

	"verif/gosym/sym"
)

// Sequential models of package sync / sync/atomic (no goroutines exist in the
// engine: reaching `go` is unsupported). Listed as assumptions where used.

func (ip *Interp) shadowMap(recv Value) *MapObj {
	p := recv.(*Value)
	if m, ok := ip.shadow[p].(*MapObj); ok {
		return m
	}
	m := ip.newMap(nil)
	ip.shadow[p] = m
	if !ip.inInit {
		ip.journal = append(ip.journal, func() { delete(ip.shadow, p) })
	}
	return m
}

func registerSync(ip *Interp) {
	nop := func(ip *Interp, fr *frame, a []Value) Value { return nil }
	for _, n := range []string{
		"(*sync.Mutex).Lock", "(*sync.Mutex).Unlock", "(*sync.RWMutex).Lock", "(*sync.RWMutex).Unlock",
		"(*sync.RWMutex).RLock", "(*sync.RWMutex).RUnlock",
	} {
		ip.reg(n, nop)
	}
	ip.reg("(*sync.Once).Do", func(ip *Interp, fr *frame, a []Value) Value {
		p := a[0].(*Value)
		if ip.shadow[p] != nil {
			return nil
		}
		ip.shadow[p] = true
		if !ip.inInit {
			ip.journal = append(ip.journal, func() { delete(ip.shadow, p) })
		}
		ip.call(fr, a[1], nil)
		return nil
	})
	// sync.Pool, sequential: Get hands back the most recently Put item if there is
	// one (always reusing is one of the behaviours the real pool may show, and the
	// one that exposes state left in pooled objects), otherwise New().
	type poolState struct{ items []Value }
	pool := func(ip *Interp, recv Value) *poolState {
		p := recv.(*Value)
		if st, ok := ip.shadow[p].(*poolState); ok {
			return st
		}
		st := &poolState{}
		ip.shadow[p] = st
		if !ip.inInit {
			ip.journal = append(ip.journal, func() { delete(ip.shadow, p) })
		}
		return st
	}
	ip.reg("(*sync.Pool).Put", func(ip *Interp, fr *frame, a []Value) Value {
		if a[1].(Iface).T == nil {
			return nil
		}
		st := pool(ip, a[0])
		old := st.items
		ip.journal = append(ip.journal, func() { st.items = old })
		st.items = append(append([]Value(nil), st.items...), a[1])
		return nil
	})
	ip.reg("(*sync.Pool).Get", func(ip *Interp, fr *frame, a []Value) Value {
		st := pool(ip, a[0])
		if n := len(st.items); n > 0 {
			old := st.items
			ip.journal = append(ip.journal, func() { st.items = old })
			v := st.items[n-1]
			st.items = append([]Value(nil), st.items[:n-1]...)
			return v
		}
		ps := ip.namedType("sync", "Pool").Underlying().(*types.Struct)
		for i := 0; i < ps.NumFields(); i++ {
			if ps.Field(i).Name() == "New" {
				f := (*a[0].(*Value)).(Struct)[i]
				if isNilFunc(f) {
					return Iface{}
				}
				return ip.call(fr, f, nil)
			}
		}
		return Iface{}
	})
	// sync.Map with plain-map semantics and nondeterministic Range order
	ip.reg("(*sync.Map).Store", func(ip *Interp, fr *frame, a []Value) Value {
		ip.mapSet(ip.shadowMap(a[0]), a[1], a[2])
		return nil
	})
	ip.reg("(*sync.Map).Load", func(ip *Interp, fr *frame, a []Value) Value {
		e := ip.mapFind(ip.shadowMap(a[0]), a[1])
		if e == nil {
			return Tuple{Iface{}, ip.ctx.False}
		}
		return Tuple{e.V, ip.ctx.True}
	})
	ip.reg("(*sync.Map).LoadOrStore", func(ip *Interp, fr *frame, a []Value) Value {
		m := ip.shadowMap(a[0])
		if e := ip.mapFind(m, a[1]); e != nil {
			return Tuple{e.V, ip.ctx.True}
		}
		ip.mapSet(m, a[1], a[2])
		return Tuple{a[2], ip.ctx.False}
	})
	ip.reg("(*sync.Map).Delete", func(ip *Interp, fr *frame, a []Value) Value {
		ip.mapDelete(ip.shadowMap(a[0]), a[1])
		return nil
	})
	ip.reg("(*sync.Map).Clear", func(ip *Interp, fr *frame, a []Value) Value {
		m := ip.shadowMap(a[0])
		for _, e := range ip.mapLive(m) {
			ip.mapDelete(m, e.K)
		}
		return nil
	})
	ip.reg("(*sync.Map).Range", func(ip *Interp, fr *frame, a []Value) Value {
		m := ip.shadowMap(a[0])
		it := ip.rangeIter(nil, m).(*mapIter)
		for {
			t := it.next(ip).(Tuple)
			if t[0].(*sym.Term).Val == 0 {
				break
			}
			r := ip.call(fr, a[1], []Value{t[1], t[2]})
			if !ip.truth(r) {
				break
			}
		}
		return nil
	})
	// sync.OnceValue(f): a closure that calls f once and remembers the result
	ip.reg("sync.OnceValue", func(ip *Interp, fr *frame, a []Value) Value {
		f := a[0]
		done := false
		var res Value
		return &NativeFunc{Name: "sync.OnceValue closure", Call: func(ip *Interp, args []Value) Value {
			if !done {
				res = ip.call(ip.curFrame, f, nil)
				// (a panic in f propagates; Go would re-panic on later calls as well)
				old := done
				ip.journal = append(ip.journal, func() { done = old })
				done = true
			}
			return res
		}}
	})
	// plain atomic functions on *uint32 / *int32 / *uint64 / *int64 (sequential)
	for _, ty := range []string{"Uint32", "Int32", "Uint64", "Int64", "Uintptr"} {
		ip.reg("sync/atomic.Load"+ty, func(ip *Interp, fr *frame, a []Value) Value { return ip.load(nil, a[0]) })
		ip.reg("sync/atomic.Store"+ty, func(ip *Interp, fr *frame, a []Value) Value { ip.store(nil, a[0], a[1]); return nil })
		ip.reg("sync/atomic.Add"+ty, func(ip *Interp, fr *frame, a []Value) Value {
			n := ip.ctx.Bin(sym.OpAdd, ip.load(nil, a[0]).(*sym.Term), a[1].(*sym.Term))
			ip.store(nil, a[0], n)
			return n
		})
		ip.reg("sync/atomic.CompareAndSwap"+ty, func(ip *Interp, fr *frame, a []Value) Value {
			if ip.truth(ip.ctx.Eq(ip.load(nil, a[0]).(*sym.Term), a[1].(*sym.Term))) {
				ip.store(nil, a[0], a[2])
				return ip.ctx.True
			}
			return ip.ctx.False
		})
	}
	// atomic.Pointer[T]: struct{ _ [0]*T; _ noCopy; v unsafe.Pointer }
	ip.reg("(*sync/atomic.Pointer).Load", func(ip *Interp, fr *frame, a []Value) Value {
		s := (*a[0].(*Value)).(Struct)
		v := s[len(s)-1]
		if v == nil {
			return (*Value)(nil)
		}
		return v
	})
	ip.reg("(*sync/atomic.Pointer).Store", func(ip *Interp, fr *frame, a []Value) Value {
		s := (*a[0].(*Value)).(Struct)
		ip.write(&s[len(s)-1], a[1])
		return nil
	})
	ip.reg("(*sync/atomic.Pointer).CompareAndSwap", func(ip *Interp, fr *frame, a []Value) Value {
		s := (*a[0].(*Value)).(Struct)
		cur := s[len(s)-1]
		if cur == nil {
			cur = (*Value)(nil)
		}
		if ip.truth(ip.eq(nil, cur, a[1])) {
			ip.write(&s[len(s)-1], a[2])
			return ip.ctx.True
		}
		return ip.ctx.False
	})
	for _, w := range []struct {
		n string
		w int
	}{{"Int32", 32}, {"Int64", 64}, {"Uint32", 32}, {"Uint64", 64}} {
		w := w
		fld := func(a []Value) *Value {
			s := (*a[0].(*Value)).(Struct)
			return &s[len(s)-1]
		}
		ip.reg("(*sync/atomic."+w.n+").Load", func(ip *Interp, fr *frame, a []Value) Value { return *fld(a) })
		ip.reg("(*sync/atomic."+w.n+").Store", func(ip *Interp, fr *frame, a []Value) Value { ip.write(fld(a), a[1]); return nil })
		ip.reg("(*sync/atomic."+w.n+").Add", func(ip *Interp, fr *frame, a []Value) Value {
			n := ip.ctx.Bin(sym.OpAdd, (*fld(a)).(*sym.Term), a[1].(*sym.Term))
			ip.write(fld(a), n)
			return n
		})
	}
}

var _ types.Type
