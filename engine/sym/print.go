package sym

import (
	"fmt"
	"strings"
)

// Query is a printable conjunction of Bool terms with canonical (α-renamed)
// variable and node numbering, so that structurally equal queries print equal.
type Query struct {
	Text  string   // declarations + definitions + asserts (no push/pop/check-sat)
	Vars  []*Term  // variables in canonical order: canonical name v<i>
	Funcs []string // function symbols used (must be defined in the solver preamble)
}

func sortOf(w int) string {
	if w == 0 {
		return "Bool"
	}
	return fmt.Sprintf("(_ BitVec %d)", w)
}

func constText(t *Term) string {
	if t.W == 0 {
		if t.Val != 0 {
			return "true"
		}
		return "false"
	}
	if t.W%4 == 0 {
		return fmt.Sprintf("#x%0*x", t.W/4, t.Val)
	}
	return fmt.Sprintf("#b%0*b", t.W, t.Val)
}

// BuildQuery prints the conjunction of asserts.
func BuildQuery(asserts []*Term) *Query {
	q := &Query{}
	var decl, defs strings.Builder
	names := map[*Term]string{}
	funcs := map[string]bool{}
	nnode := 0
	var walk func(t *Term) string
	walk = func(t *Term) string {
		if n, ok := names[t]; ok {
			return n
		}
		var n string
		switch t.Op {
		case OpConst:
			n = constText(t)
		case OpVar:
			n = fmt.Sprintf("v%d", len(q.Vars))
			q.Vars = append(q.Vars, t)
			fmt.Fprintf(&decl, "(declare-const %s %s)\n", n, sortOf(t.W))
		default:
			args := make([]string, len(t.Args))
			for i, a := range t.Args {
				args[i] = walk(a)
			}
			var body string
			switch t.Op {
			case OpExtract:
				body = fmt.Sprintf("((_ extract %d %d) %s)", t.Hi, t.Lo, args[0])
			case OpZext:
				body = fmt.Sprintf("((_ zero_extend %d) %s)", t.Hi, args[0])
			case OpSext:
				body = fmt.Sprintf("((_ sign_extend %d) %s)", t.Hi, args[0])
			case OpApp:
				if !funcs[t.Name] {
					funcs[t.Name] = true
					q.Funcs = append(q.Funcs, t.Name)
				}
				body = "(" + t.Name + " " + strings.Join(args, " ") + ")"
			default:
				body = "(" + opNames[t.Op] + " " + strings.Join(args, " ") + ")"
			}
			n = fmt.Sprintf("n%d", nnode)
			nnode++
			fmt.Fprintf(&defs, "(define-fun %s () %s %s)\n", n, sortOf(t.W), body)
		}
		names[t] = n
		return n
	}
	var as strings.Builder
	for _, a := range asserts {
		fmt.Fprintf(&as, "(assert %s)\n", walk(a))
	}
	q.Text = decl.String() + defs.String() + as.String()
	return q
}

// String renders a term for humans (small terms only).
func (t *Term) String() string {
	var sb strings.Builder
	t.write(&sb, 0)
	return sb.String()
}

func (t *Term) write(sb *strings.Builder, depth int) {
	if depth > 6 {
		sb.WriteString("…")
		return
	}
	switch t.Op {
	case OpConst:
		sb.WriteString(constText(t))
	case OpVar:
		sb.WriteString(t.Name)
	default:
		sb.WriteString("(")
		switch t.Op {
		case OpExtract:
			fmt.Fprintf(sb, "extract[%d:%d]", t.Hi, t.Lo)
		case OpZext:
			fmt.Fprintf(sb, "zext%d", t.W)
		case OpSext:
			fmt.Fprintf(sb, "sext%d", t.W)
		case OpApp:
			sb.WriteString(t.Name)
		default:
			sb.WriteString(opNames[t.Op])
		}
		for _, a := range t.Args {
			sb.WriteString(" ")
			a.write(sb, depth+1)
		}
		sb.WriteString(")")
	}
}
