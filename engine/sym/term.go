// Package sym: hash-consed SMT terms (Bool and fixed-width bit-vectors ≤ 64)
// with constant folding. One Ctx per worker; not safe for concurrent use.
package sym

import (
	"fmt"
	"math/bits"
)

type Op uint8

const (
	OpConst Op = iota
	OpVar
	OpNot
	OpAnd
	OpOr
	OpIte
	OpEq
	OpAdd
	OpSub
	OpMul
	OpUDiv
	OpURem
	OpSDiv
	OpSRem
	OpBAnd
	OpBOr
	OpBXor
	OpBNot
	OpNeg
	OpShl
	OpLshr
	OpAshr
	OpUlt
	OpUle
	OpSlt
	OpSle
	OpExtract
	OpConcat
	OpZext
	OpSext
	OpApp
)

var opNames = map[Op]string{
	OpNot: "not", OpAnd: "and", OpOr: "or", OpIte: "ite", OpEq: "=",
	OpAdd: "bvadd", OpSub: "bvsub", OpMul: "bvmul", OpUDiv: "bvudiv", OpURem: "bvurem",
	OpSDiv: "bvsdiv", OpSRem: "bvsrem", OpBAnd: "bvand", OpBOr: "bvor", OpBXor: "bvxor",
	OpBNot: "bvnot", OpNeg: "bvneg", OpShl: "bvshl", OpLshr: "bvlshr", OpAshr: "bvashr",
	OpUlt: "bvult", OpUle: "bvule", OpSlt: "bvslt", OpSle: "bvsle", OpConcat: "concat",
}

// Term is an immutable DAG node. W==0 means Bool.
type Term struct {
	Op   Op
	W    int
	Args []*Term
	Val  uint64 // OpConst
	Name string // OpVar, OpApp
	Hi   int    // OpExtract hi / OpZext,OpSext added bits
	Lo   int
	ID   int
}

type key struct {
	op         Op
	w          int
	val        uint64
	name       string
	hi, lo     int
	a0, a1, a2 int
}

// FuncDef describes an interpreted function symbol (OpApp) with both an SMT
// definition and a native evaluator (used for model evaluation / validation).
type FuncDef struct {
	Name   string
	ArgW   []int
	ResW   int    // 0 = Bool
	SMT    string // full (define-fun ...) text
	Native func(args []uint64) uint64
}

type Ctx struct {
	tab   map[key]*Term
	next  int
	True  *Term
	False *Term
	Funcs map[string]*FuncDef
	nvar  int
}

func NewCtx() *Ctx {
	c := &Ctx{tab: map[key]*Term{}, Funcs: map[string]*FuncDef{}}
	c.True = c.mk(&Term{Op: OpConst, W: 0, Val: 1})
	c.False = c.mk(&Term{Op: OpConst, W: 0, Val: 0})
	return c
}

func (c *Ctx) mk(t *Term) *Term {
	k := key{op: t.Op, w: t.W, val: t.Val, name: t.Name, hi: t.Hi, lo: t.Lo, a0: -1, a1: -1, a2: -1}
	if len(t.Args) > 0 {
		k.a0 = t.Args[0].ID
	}
	if len(t.Args) > 1 {
		k.a1 = t.Args[1].ID
	}
	if len(t.Args) > 2 {
		k.a2 = t.Args[2].ID
	}
	if len(t.Args) > 3 {
		panic("sym: arity > 3")
	}
	if x, ok := c.tab[k]; ok {
		return x
	}
	t.ID = c.next
	c.next++
	c.tab[k] = t
	return t
}

func Mask(w int) uint64 {
	if w >= 64 {
		return ^uint64(0)
	}
	return (uint64(1) << uint(w)) - 1
}

func (t *Term) IsConst() bool { return t.Op == OpConst }
func (t *Term) IsBool() bool  { return t.W == 0 }

// SignedVal returns the constant as a sign-extended int64.
func (t *Term) SignedVal() int64 {
	return SignExt(t.Val, t.W)
}

func SignExt(v uint64, w int) int64 {
	if w >= 64 {
		return int64(v)
	}
	if v&(1<<uint(w-1)) != 0 {
		return int64(v | ^Mask(w))
	}
	return int64(v)
}

func (c *Ctx) Bool(b bool) *Term {
	if b {
		return c.True
	}
	return c.False
}

func (c *Ctx) BV(v uint64, w int) *Term {
	if w <= 0 || w > 64 {
		panic(fmt.Sprintf("sym: bad width %d", w))
	}
	return c.mk(&Term{Op: OpConst, W: w, Val: v & Mask(w)})
}

func (c *Ctx) Var(name string, w int) *Term {
	return c.mk(&Term{Op: OpVar, W: w, Name: name})
}

func (c *Ctx) FreshVar(prefix string, w int) *Term {
	c.nvar++
	return c.Var(fmt.Sprintf("%s!%d", prefix, c.nvar), w)
}

func (c *Ctx) Not(a *Term) *Term {
	if a.W != 0 {
		panic("Not on bv")
	}
	if a.IsConst() {
		return c.Bool(a.Val == 0)
	}
	if a.Op == OpNot {
		return a.Args[0]
	}
	return c.mk(&Term{Op: OpNot, Args: []*Term{a}})
}

func (c *Ctx) And(a, b *Term) *Term {
	if a.IsConst() {
		if a.Val == 0 {
			return c.False
		}
		return b
	}
	if b.IsConst() {
		if b.Val == 0 {
			return c.False
		}
		return a
	}
	if a == b {
		return a
	}
	if (a.Op == OpNot && a.Args[0] == b) || (b.Op == OpNot && b.Args[0] == a) {
		return c.False
	}
	return c.mk(&Term{Op: OpAnd, Args: []*Term{a, b}})
}

func (c *Ctx) Or(a, b *Term) *Term {
	if a.IsConst() {
		if a.Val != 0 {
			return c.True
		}
		return b
	}
	if b.IsConst() {
		if b.Val != 0 {
			return c.True
		}
		return a
	}
	if a == b {
		return a
	}
	if (a.Op == OpNot && a.Args[0] == b) || (b.Op == OpNot && b.Args[0] == a) {
		return c.True
	}
	return c.mk(&Term{Op: OpOr, Args: []*Term{a, b}})
}

func (c *Ctx) AndN(ts ...*Term) *Term {
	r := c.True
	for _, t := range ts {
		r = c.And(r, t)
	}
	return r
}

func (c *Ctx) OrN(ts ...*Term) *Term {
	r := c.False
	for _, t := range ts {
		r = c.Or(r, t)
	}
	return r
}

func (c *Ctx) Ite(cond, a, b *Term) *Term {
	if a.W != b.W {
		panic(fmt.Sprintf("Ite width mismatch %d %d", a.W, b.W))
	}
	if cond.IsConst() {
		if cond.Val != 0 {
			return a
		}
		return b
	}
	if a == b {
		return a
	}
	if a.W == 0 {
		if a.IsConst() && b.IsConst() {
			if a.Val != 0 { // ite(c, true, false)
				return cond
			}
			return c.Not(cond)
		}
		if a.IsConst() {
			if a.Val != 0 {
				return c.Or(cond, b)
			}
			return c.And(c.Not(cond), b)
		}
		if b.IsConst() {
			if b.Val != 0 {
				return c.Or(c.Not(cond), a)
			}
			return c.And(cond, a)
		}
	}
	return c.mk(&Term{Op: OpIte, W: a.W, Args: []*Term{cond, a, b}})
}

func (c *Ctx) Eq(a, b *Term) *Term {
	if a.W != b.W {
		panic(fmt.Sprintf("Eq width mismatch %d %d", a.W, b.W))
	}
	if a == b {
		return c.True
	}
	if a.IsConst() && b.IsConst() {
		return c.Bool(a.Val == b.Val)
	}
	if a.W == 0 {
		if a.IsConst() {
			if a.Val != 0 {
				return b
			}
			return c.Not(b)
		}
		if b.IsConst() {
			if b.Val != 0 {
				return a
			}
			return c.Not(a)
		}
	}
	// canonical order: constant second, else by ID
	if a.IsConst() || (!b.IsConst() && a.ID > b.ID) {
		a, b = b, a
	}
	// zext(x) == const: fold when the constant does not fit
	if b.IsConst() && a.Op == OpZext {
		inner := a.Args[0]
		if b.Val > Mask(inner.W) {
			return c.False
		}
		return c.Eq(inner, c.BV(b.Val, inner.W))
	}
	// ite(c, k1, k2) == k  with constants
	if b.IsConst() && a.Op == OpIte && a.Args[1].IsConst() && a.Args[2].IsConst() {
		return c.Ite(a.Args[0], c.Bool(a.Args[1].Val == b.Val), c.Bool(a.Args[2].Val == b.Val))
	}
	return c.mk(&Term{Op: OpEq, Args: []*Term{a, b}})
}

func (c *Ctx) binFold(op Op, a, b uint64, w int) (uint64, bool) {
	m := Mask(w)
	switch op {
	case OpAdd:
		return (a + b) & m, true
	case OpSub:
		return (a - b) & m, true
	case OpMul:
		return (a * b) & m, true
	case OpUDiv:
		if b == 0 {
			return m, true
		}
		return a / b, true
	case OpURem:
		if b == 0 {
			return a, true
		}
		return a % b, true
	case OpSDiv:
		sa, sb := SignExt(a, w), SignExt(b, w)
		if sb == 0 {
			if sa < 0 {
				return 1, true
			}
			return m, true
		}
		if sb == -1 {
			return uint64(-sa) & m, true
		}
		return uint64(sa/sb) & m, true
	case OpSRem:
		sa, sb := SignExt(a, w), SignExt(b, w)
		if sb == 0 {
			return a, true
		}
		if sb == -1 {
			return 0, true
		}
		return uint64(sa%sb) & m, true
	case OpBAnd:
		return a & b, true
	case OpBOr:
		return a | b, true
	case OpBXor:
		return a ^ b, true
	case OpShl:
		if b >= uint64(w) {
			return 0, true
		}
		return (a << b) & m, true
	case OpLshr:
		if b >= uint64(w) {
			return 0, true
		}
		return a >> b, true
	case OpAshr:
		sa := SignExt(a, w)
		if b >= uint64(w) {
			if sa < 0 {
				return m, true
			}
			return 0, true
		}
		return uint64(sa>>b) & m, true
	}
	return 0, false
}

// Bin builds a bit-vector binary operation.
func (c *Ctx) Bin(op Op, a, b *Term) *Term {
	if a.W != b.W || a.W == 0 {
		panic(fmt.Sprintf("Bin %v width mismatch %d %d", opNames[op], a.W, b.W))
	}
	if a.IsConst() && b.IsConst() {
		if v, ok := c.binFold(op, a.Val, b.Val, a.W); ok {
			return c.BV(v, a.W)
		}
	}
	switch op {
	case OpAdd:
		if a.IsConst() && a.Val == 0 {
			return b
		}
		if b.IsConst() && b.Val == 0 {
			return a
		}
	case OpSub:
		if b.IsConst() && b.Val == 0 {
			return a
		}
		if a == b {
			return c.BV(0, a.W)
		}
	case OpBAnd:
		if a == b {
			return a
		}
		if a.IsConst() {
			a, b = b, a
		}
		if b.IsConst() {
			if b.Val == 0 {
				return b
			}
			if b.Val == Mask(a.W) {
				return a
			}
		}
	case OpBOr:
		if a == b {
			return a
		}
		if a.IsConst() {
			a, b = b, a
		}
		if b.IsConst() {
			if b.Val == 0 {
				return a
			}
			if b.Val == Mask(a.W) {
				return b
			}
		}
	case OpBXor:
		if a == b {
			return c.BV(0, a.W)
		}
		if b.IsConst() && b.Val == 0 {
			return a
		}
		if a.IsConst() && a.Val == 0 {
			return b
		}
	case OpMul:
		if a.IsConst() {
			a, b = b, a
		}
		if b.IsConst() {
			if b.Val == 0 {
				return b
			}
			if b.Val == 1 {
				return a
			}
		}
	case OpShl, OpLshr, OpAshr:
		if b.IsConst() && b.Val == 0 {
			return a
		}
	}
	// push constant ops through ite-of-constants: op(ite(c,k1,k2), k)
	if b.IsConst() && a.Op == OpIte && a.Args[1].IsConst() && a.Args[2].IsConst() {
		return c.Ite(a.Args[0], c.Bin(op, a.Args[1], b), c.Bin(op, a.Args[2], b))
	}
	return c.mk(&Term{Op: op, W: a.W, Args: []*Term{a, b}})
}

// Cmp builds a comparison (OpUlt, OpUle, OpSlt, OpSle).
func (c *Ctx) Cmp(op Op, a, b *Term) *Term {
	if a.W != b.W || a.W == 0 {
		panic(fmt.Sprintf("Cmp width mismatch %d %d", a.W, b.W))
	}
	if a.IsConst() && b.IsConst() {
		switch op {
		case OpUlt:
			return c.Bool(a.Val < b.Val)
		case OpUle:
			return c.Bool(a.Val <= b.Val)
		case OpSlt:
			return c.Bool(a.SignedVal() < b.SignedVal())
		case OpSle:
			return c.Bool(a.SignedVal() <= b.SignedVal())
		}
	}
	if a == b {
		return c.Bool(op == OpUle || op == OpSle)
	}
	// canonical form for comparisons against a constant: (x ule k) / (x sle k) or its negation
	minS := uint64(1) << uint(a.W-1)
	switch {
	case op == OpUlt && b.IsConst():
		if b.Val == 0 {
			return c.False
		}
		return c.Cmp(OpUle, a, c.BV(b.Val-1, a.W))
	case op == OpUle && a.IsConst():
		if a.Val == 0 {
			return c.True
		}
		return c.Not(c.Cmp(OpUle, b, c.BV(a.Val-1, a.W)))
	case op == OpUlt && a.IsConst():
		return c.Not(c.Cmp(OpUle, b, a))
	case op == OpSlt && b.IsConst():
		if b.Val == minS {
			return c.False
		}
		return c.Cmp(OpSle, a, c.BV(b.Val-1, a.W))
	case op == OpSle && a.IsConst():
		if a.Val == minS {
			return c.True
		}
		return c.Not(c.Cmp(OpSle, b, c.BV(a.Val-1, a.W)))
	case op == OpSlt && a.IsConst():
		return c.Not(c.Cmp(OpSle, b, a))
	}
	// range reasoning on zero-extended operands (very common: byte/rune compares)
	if lo, hi, ok := c.urange(a); ok {
		if lo2, hi2, ok2 := c.urange(b); ok2 {
			signedOK := hi < (uint64(1)<<uint(a.W-1)) && hi2 < (uint64(1)<<uint(a.W-1))
			if op == OpUlt || (op == OpSlt && signedOK) {
				if hi < lo2 {
					return c.True
				}
				if lo >= hi2 {
					return c.False
				}
			}
			if op == OpUle || (op == OpSle && signedOK) {
				if hi <= lo2 {
					return c.True
				}
				if lo > hi2 {
					return c.False
				}
			}
		}
	}
	// zext(x) cmp const  →  x cmp const' at the narrow width (keeps queries small)
	if a.Op == OpZext && b.IsConst() {
		in := a.Args[0]
		signedOK := b.Val < (uint64(1) << uint(a.W-1))
		if (op == OpUlt || op == OpUle || signedOK) && b.Val <= Mask(in.W) {
			nop := op
			if op == OpSlt {
				nop = OpUlt
			}
			if op == OpSle {
				nop = OpUle
			}
			return c.Cmp(nop, in, c.BV(b.Val, in.W))
		}
	}
	if b.Op == OpZext && a.IsConst() {
		in := b.Args[0]
		signedOK := a.Val < (uint64(1) << uint(b.W-1))
		if (op == OpUlt || op == OpUle || signedOK) && a.Val <= Mask(in.W) {
			nop := op
			if op == OpSlt {
				nop = OpUlt
			}
			if op == OpSle {
				nop = OpUle
			}
			return c.Cmp(nop, c.BV(a.Val, in.W), in)
		}
	}
	return c.mk(&Term{Op: op, Args: []*Term{a, b}})
}

// urange returns a cheap, sound unsigned interval for t.
func (c *Ctx) urange(t *Term) (lo, hi uint64, ok bool) {
	lo, hi = c.URange(t)
	return lo, hi, true
}

func (c *Ctx) URange(t *Term) (lo, hi uint64) {
	full := Mask(max(t.W, 1))
	switch t.Op {
	case OpConst:
		return t.Val, t.Val
	case OpZext:
		return c.URange(t.Args[0])
	case OpExtract:
		if t.Lo == 0 {
			l, h := c.URange(t.Args[0])
			if h <= full {
				return l, h
			}
		}
	case OpIte:
		l1, h1 := c.URange(t.Args[1])
		l2, h2 := c.URange(t.Args[2])
		return min(l1, l2), max(h1, h2)
	case OpBAnd:
		_, h1 := c.URange(t.Args[0])
		_, h2 := c.URange(t.Args[1])
		return 0, min(h1, h2)
	case OpBOr, OpBXor:
		_, h1 := c.URange(t.Args[0])
		_, h2 := c.URange(t.Args[1])
		h := max(h1, h2)
		n := bits.Len64(h)
		if n >= 64 {
			return 0, full
		}
		return 0, min(full, (uint64(1)<<uint(n))-1)
	case OpShl:
		if t.Args[1].IsConst() {
			k := t.Args[1].Val
			l, h := c.URange(t.Args[0])
			if k < 64 && bits.Len64(h)+int(k) <= t.W {
				return l << k, h << k
			}
		}
	case OpLshr:
		if t.Args[1].IsConst() {
			k := t.Args[1].Val
			l, h := c.URange(t.Args[0])
			if k < 64 {
				return l >> k, h >> k
			}
			return 0, 0
		}
	case OpAdd:
		l1, h1 := c.URange(t.Args[0])
		l2, h2 := c.URange(t.Args[1])
		if h1+h2 >= h1 && h1+h2 <= full {
			return l1 + l2, h1 + h2
		}
	}
	return 0, full
}

func (c *Ctx) BNot(a *Term) *Term {
	if a.IsConst() {
		return c.BV(^a.Val, a.W)
	}
	return c.mk(&Term{Op: OpBNot, W: a.W, Args: []*Term{a}})
}

func (c *Ctx) Neg(a *Term) *Term {
	if a.IsConst() {
		return c.BV(-a.Val, a.W)
	}
	return c.mk(&Term{Op: OpNeg, W: a.W, Args: []*Term{a}})
}

func (c *Ctx) Extract(a *Term, hi, lo int) *Term {
	if hi < lo || hi >= a.W {
		panic("bad extract")
	}
	w := hi - lo + 1
	if w == a.W {
		return a
	}
	if a.IsConst() {
		return c.BV(a.Val>>uint(lo), w)
	}
	if (a.Op == OpZext || a.Op == OpSext) && lo == 0 {
		in := a.Args[0]
		if w == in.W {
			return in
		}
		if w < in.W {
			return c.Extract(in, hi, 0)
		}
		if a.Op == OpZext {
			return c.Zext(in, w)
		}
		return c.Sext(in, w)
	}
	if a.Op == OpIte && a.Args[1].IsConst() && a.Args[2].IsConst() {
		return c.Ite(a.Args[0], c.Extract(a.Args[1], hi, lo), c.Extract(a.Args[2], hi, lo))
	}
	return c.mk(&Term{Op: OpExtract, W: w, Args: []*Term{a}, Hi: hi, Lo: lo})
}

// Zext zero-extends a to width w.
func (c *Ctx) Zext(a *Term, w int) *Term {
	if w == a.W {
		return a
	}
	if w < a.W {
		return c.Extract(a, w-1, 0)
	}
	if a.IsConst() {
		return c.BV(a.Val, w)
	}
	if a.Op == OpZext {
		return c.Zext(a.Args[0], w)
	}
	if a.Op == OpIte && a.Args[1].IsConst() && a.Args[2].IsConst() {
		return c.Ite(a.Args[0], c.Zext(a.Args[1], w), c.Zext(a.Args[2], w))
	}
	return c.mk(&Term{Op: OpZext, W: w, Args: []*Term{a}, Hi: w - a.W})
}

func (c *Ctx) Sext(a *Term, w int) *Term {
	if w == a.W {
		return a
	}
	if w < a.W {
		return c.Extract(a, w-1, 0)
	}
	if a.IsConst() {
		return c.BV(uint64(SignExt(a.Val, a.W)), w)
	}
	if a.Op == OpZext { // sign bit is zero
		return c.Zext(a.Args[0], w)
	}
	if a.Op == OpIte && a.Args[1].IsConst() && a.Args[2].IsConst() {
		return c.Ite(a.Args[0], c.Sext(a.Args[1], w), c.Sext(a.Args[2], w))
	}
	return c.mk(&Term{Op: OpSext, W: w, Args: []*Term{a}, Hi: w - a.W})
}

func (c *Ctx) Concat(hi, lo *Term) *Term {
	w := hi.W + lo.W
	if w > 64 {
		panic("concat > 64")
	}
	if hi.IsConst() && lo.IsConst() {
		return c.BV(hi.Val<<uint(lo.W)|lo.Val, w)
	}
	return c.mk(&Term{Op: OpConcat, W: w, Args: []*Term{hi, lo}})
}

// App applies a registered function symbol.
func (c *Ctx) App(name string, args ...*Term) *Term {
	fd := c.Funcs[name]
	if fd == nil {
		panic("sym: unknown function " + name)
	}
	all := true
	vals := make([]uint64, len(args))
	for i, a := range args {
		if a.W != fd.ArgW[i] {
			panic("sym: App arg width")
		}
		if !a.IsConst() {
			all = false
		}
		vals[i] = a.Val
	}
	if all {
		v := fd.Native(vals)
		if fd.ResW == 0 {
			return c.Bool(v != 0)
		}
		return c.BV(v, fd.ResW)
	}
	return c.mk(&Term{Op: OpApp, W: fd.ResW, Name: name, Args: append([]*Term(nil), args...)})
}

func (c *Ctx) Register(fd *FuncDef) { c.Funcs[fd.Name] = fd }

// Vars collects the variables of t into set.
func Vars(t *Term, seen map[*Term]bool, out map[*Term]bool) {
	if seen[t] {
		return
	}
	seen[t] = true
	if t.Op == OpVar {
		out[t] = true
		return
	}
	for _, a := range t.Args {
		Vars(a, seen, out)
	}
}

// Eval evaluates t under an assignment of variables (missing variables = 0).
func (c *Ctx) Eval(t *Term, asg map[string]uint64, memo map[*Term]uint64) uint64 {
	if v, ok := memo[t]; ok {
		return v
	}
	var r uint64
	a := func(i int) uint64 { return c.Eval(t.Args[i], asg, memo) }
	switch t.Op {
	case OpConst:
		r = t.Val
	case OpVar:
		v, ok := asg[t.Name]
		if !ok && t.W == 8 {
			v = 'a' // unconstrained bytes default to a printable value
		}
		r = v & maskB(t.W)
	case OpNot:
		r = 1 - a(0)
	case OpAnd:
		r = a(0) & a(1)
	case OpOr:
		r = a(0) | a(1)
	case OpIte:
		if a(0) != 0 {
			r = a(1)
		} else {
			r = a(2)
		}
	case OpEq:
		r = b2u(a(0) == a(1))
	case OpUlt:
		r = b2u(a(0) < a(1))
	case OpUle:
		r = b2u(a(0) <= a(1))
	case OpSlt:
		r = b2u(SignExt(a(0), t.Args[0].W) < SignExt(a(1), t.Args[0].W))
	case OpSle:
		r = b2u(SignExt(a(0), t.Args[0].W) <= SignExt(a(1), t.Args[0].W))
	case OpBNot:
		r = ^a(0) & Mask(t.W)
	case OpNeg:
		r = -a(0) & Mask(t.W)
	case OpExtract:
		r = (a(0) >> uint(t.Lo)) & Mask(t.W)
	case OpZext:
		r = a(0)
	case OpSext:
		r = uint64(SignExt(a(0), t.Args[0].W)) & Mask(t.W)
	case OpConcat:
		r = a(0)<<uint(t.Args[1].W) | a(1)
	case OpApp:
		vals := make([]uint64, len(t.Args))
		for i := range t.Args {
			vals[i] = a(i)
		}
		r = c.Funcs[t.Name].Native(vals)
	default:
		v, ok := c.binFold(t.Op, a(0), a(1), t.W)
		if !ok {
			panic("eval: op")
		}
		r = v
	}
	memo[t] = r
	return r
}

func maskB(w int) uint64 {
	if w == 0 {
		return 1
	}
	return Mask(w)
}

func b2u(b bool) uint64 {
	if b {
		return 1
	}
	return 0
}

var _ = bits.Len
