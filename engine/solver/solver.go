// Package solver drives one long-lived SMT solver process over a pipe.
package solver

import (
	"bufio"
	"crypto/sha256"
	"fmt"
	"io"
	"os"
	"os/exec"
	"strconv"
	"strings"
	"sync"
	"time"

	"verif/gosym/sym"
)

var SlowLog io.Writer
var SlowThreshold = 0.05
var LastQueryFile = os.Getenv("GOSYM_LASTQ")

type Result int

const (
	Unsat Result = iota
	Sat
	Unknown
)

func (r Result) String() string { return [...]string{"unsat", "sat", "unknown"}[r] }

type Stats struct {
	Queries   int
	CacheHits int
	Sat       int
	Unsat     int
	Unknown   int
	Errors    int
	SolverSec float64
}

type cached struct {
	res   Result
	model []uint64
	has   bool // model present
}

type Solver struct {
	Name     string
	cmd      *exec.Cmd
	in       io.WriteCloser
	out      *bufio.Reader
	cache    map[[16]byte]*cached
	Stats    Stats
	defined  map[string]bool
	ctx      *sym.Ctx
	LogW     io.Writer
	argv     []string
	preamble string
	check    string
	dead     bool
}

// Kind: "z3" (/usr/bin/z3 4.8.12), "z3-new", "cvc5".
func New(kind string, ctx *sym.Ctx, timeoutMs int) (*Solver, error) {
	var argv []string
	pre := ""
	check := "(check-sat)\n"
	switch kind {
	case "z3", "z3-new":
		argv = []string{kind, "-in", "-smt2"}
		check = fmt.Sprintf("(check-sat-using (try-for qfbv %d))\n", timeoutMs)
	case "cvc5":
		argv = []string{"cvc5", "--incremental", "--lang=smt2", "--produce-models", fmt.Sprintf("--tlimit-per=%d", timeoutMs)}
		pre = "(set-logic QF_BV)\n"
	default:
		return nil, fmt.Errorf("unknown solver %q", kind)
	}
	s := &Solver{Name: kind, cache: map[[16]byte]*cached{}, defined: map[string]bool{}, ctx: ctx, argv: argv, preamble: pre, check: check}
	if err := s.start(); err != nil {
		return nil, err
	}
	return s, nil
}

func (s *Solver) start() error {
	cmd := exec.Command(s.argv[0], s.argv[1:]...)
	in, err := cmd.StdinPipe()
	if err != nil {
		return err
	}
	out, err := cmd.StdoutPipe()
	if err != nil {
		return err
	}
	cmd.Stderr = nil
	if err := cmd.Start(); err != nil {
		return err
	}
	s.cmd, s.in, s.out = cmd, in, bufio.NewReaderSize(out, 1<<16)
	s.defined = map[string]bool{}
	s.dead = false
	return s.send(s.preamble)
}

func (s *Solver) Close() {
	if s.cmd != nil {
		s.in.Close()
		s.cmd.Process.Kill()
		s.cmd.Wait()
		s.cmd = nil
	}
}

func (s *Solver) send(txt string) error {
	if s.LogW != nil {
		io.WriteString(s.LogW, txt)
	}
	_, err := io.WriteString(s.in, txt)
	return err
}

func (s *Solver) readLine() (string, error) {
	l, err := s.out.ReadString('\n')
	return strings.TrimSpace(l), err
}

// readSexp reads one balanced s-expression (may span lines).
func (s *Solver) readSexp() (string, error) {
	var sb strings.Builder
	depth := 0
	started := false
	for {
		l, err := s.out.ReadString('\n')
		if err != nil {
			return sb.String(), err
		}
		sb.WriteString(l)
		inStr := false
		for _, ch := range l {
			switch {
			case ch == '"':
				inStr = !inStr
			case inStr:
			case ch == '(':
				depth++
				started = true
			case ch == ')':
				depth--
			}
		}
		if started && depth <= 0 {
			return sb.String(), nil
		}
		if !started && strings.TrimSpace(l) != "" {
			return sb.String(), nil
		}
	}
}

// Check decides satisfiability of the conjunction. If wantModel and the result
// is Sat, the returned map gives the value of every variable of the query.
func (s *Solver) Check(asserts []*sym.Term, wantModel bool) (Result, map[*sym.Term]uint64, error) {
	q := sym.BuildQuery(asserts)
	s.Stats.Queries++
	key := textKey(s.Name, q.Text)
	if c, ok := s.lookup(key); ok && (!wantModel || c.res != Sat || c.has) {
		s.Stats.CacheHits++
		var m map[*sym.Term]uint64
		if wantModel && c.res == Sat {
			m = map[*sym.Term]uint64{}
			for i, v := range q.Vars {
				m[v] = c.model[i]
			}
		}
		return c.res, m, nil
	}
	t0 := time.Now()
	defer func() {
		d := time.Since(t0).Seconds()
		s.Stats.SolverSec += d
		if SlowLog != nil && d > SlowThreshold {
			fmt.Fprintf(SlowLog, "; ---- %.3fs\n%s\n", d, q.Text)
		}
	}()
	if s.dead {
		if err := s.restart(); err != nil {
			return Unknown, nil, err
		}
	}
	var sb strings.Builder
	for _, f := range q.Funcs {
		if !s.defined[f] {
			s.defined[f] = true
			sb.WriteString(s.ctx.Funcs[f].SMT)
			sb.WriteString("\n")
		}
	}
	sb.WriteString("(push 1)\n")
	sb.WriteString(q.Text)
	sb.WriteString(s.check)
	if LastQueryFile != "" {
		os.WriteFile(LastQueryFile, []byte(sb.String()), 0o644)
	}
	if err := s.send(sb.String()); err != nil {
		s.dead = true
		return Unknown, nil, err
	}
	line, err := s.readLine()
	if err != nil {
		s.dead = true
		s.Stats.Errors++
		return Unknown, nil, fmt.Errorf("solver died: %v", err)
	}
	var res Result
	switch line {
	case "sat":
		res = Sat
		s.Stats.Sat++
	case "unsat":
		res = Unsat
		s.Stats.Unsat++
	case "unknown", "timeout":
		res = Unknown
		s.Stats.Unknown++
	default:
		// (error ...) or anything else: inconclusive, restart to resync
		s.Stats.Errors++
		s.dead = true
		s.Close()
		return Unknown, nil, fmt.Errorf("solver said %q", line)
	}
	c := &cached{res: res}
	var m map[*sym.Term]uint64
	if res == Sat && wantModel && len(q.Vars) > 0 {
		var gv strings.Builder
		gv.WriteString("(get-value (")
		for i := range q.Vars {
			fmt.Fprintf(&gv, "v%d ", i)
		}
		gv.WriteString("))\n")
		if err := s.send(gv.String()); err != nil {
			s.dead = true
			return Unknown, nil, err
		}
		txt, err := s.readSexp()
		if err != nil || strings.Contains(txt, "(error") {
			s.dead = true
			s.Close()
			s.Stats.Errors++
			return Unknown, nil, fmt.Errorf("get-value failed: %v %s", err, txt)
		}
		vals, err := parseValues(txt, len(q.Vars))
		if err != nil {
			s.dead = true
			s.Close()
			s.Stats.Errors++
			return Unknown, nil, err
		}
		c.model, c.has = vals, true
		m = map[*sym.Term]uint64{}
		for i, v := range q.Vars {
			m[v] = vals[i]
		}
	} else if res == Sat && wantModel {
		c.has = true
		m = map[*sym.Term]uint64{}
	}
	if err := s.send("(pop 1)\n"); err != nil {
		s.dead = true
	}
	if res != Unknown {
		s.cache[key] = c
		shared.Store(key, c)
	}
	return res, m, nil
}

// shared is the cross-worker query cache (queries are α-canonical text).
var shared sync.Map

// textKey: queries are cached under a 128-bit hash of (solver, canonical text);
// keeping the texts themselves made long runs use tens of gigabytes.
func textKey(solverName, text string) [16]byte {
	h := sha256.New()
	h.Write([]byte(solverName))
	h.Write([]byte{0})
	h.Write([]byte(text))
	var k [16]byte
	copy(k[:], h.Sum(nil))
	return k
}

func (s *Solver) lookup(key [16]byte) (*cached, bool) {
	if c, ok := s.cache[key]; ok {
		return c, true
	}
	if v, ok := shared.Load(key); ok {
		c := v.(*cached)
		s.cache[key] = c
		return c, true
	}
	return nil, false
}

func (s *Solver) restart() error {
	s.Close()
	return s.start()
}

// parseValues parses "((v0 #x41) (v1 true) ...)".
func parseValues(txt string, n int) ([]uint64, error) {
	vals := make([]uint64, n)
	seen := 0
	toks := strings.Fields(strings.NewReplacer("(", " ( ", ")", " ) ").Replace(txt))
	for i := 0; i+1 < len(toks); i++ {
		if len(toks[i]) > 1 && toks[i][0] == 'v' {
			idx, err := strconv.Atoi(toks[i][1:])
			if err != nil || idx >= n {
				continue
			}
			v := toks[i+1]
			var x uint64
			switch {
			case v == "true":
				x = 1
			case v == "false":
				x = 0
			case strings.HasPrefix(v, "#x"):
				x, err = strconv.ParseUint(v[2:], 16, 64)
			case strings.HasPrefix(v, "#b"):
				x, err = strconv.ParseUint(v[2:], 2, 64)
			case v == "(" && i+3 < len(toks) && toks[i+2] == "_" && strings.HasPrefix(toks[i+3], "bv"):
				x, err = strconv.ParseUint(toks[i+3][2:], 10, 64)
			default:
				err = fmt.Errorf("bad value %q", v)
			}
			if err != nil {
				return nil, fmt.Errorf("parse model: %v in %q", err, txt)
			}
			vals[idx] = x
			seen++
		}
	}
	if seen < n {
		return nil, fmt.Errorf("parse model: got %d of %d values in %q", seen, n, txt)
	}
	return vals, nil
}
