// gosym: bounded symbolic execution of the real gengo code, decided by an SMT solver.
package main

import (
	"encoding/json"
	"flag"
	"fmt"
	"os"
	"path/filepath"
	"runtime"
	"runtime/pprof"
	"sort"
	"strconv"
	"strings"
	"time"

	"verif/gosym/driver"
	"verif/gosym/solver"
)

func usage() {
	fmt.Fprintln(os.Stderr, `usage:
  gosym check --property Cxx [--tier quick|thorough] [--workers N]
  gosym run --pkg <import path> --func <harness> --params 1,2 [--workers N] [--show N]
  gosym selftest
  gosym replay <file>`)
	os.Exit(2)
}

func main() {
	if len(os.Args) < 2 {
		usage()
	}
	switch os.Args[1] {
	case "check":
		os.Exit(cmdCheck(os.Args[2:]))
	case "run":
		os.Exit(cmdRun(os.Args[2:]))
	case "selftest":
		os.Exit(driver.SelfTest())
	case "replay":
		if len(os.Args) < 3 {
			usage()
		}
		os.Exit(driver.ReplayFile(os.Args[2]))
	default:
		usage()
	}
}

func envInt(name string, def int) int {
	if v := os.Getenv(name); v != "" {
		if n, err := strconv.Atoi(v); err == nil {
			return n
		}
	}
	return def
}

func cmdCheck(args []string) int {
	fs := flag.NewFlagSet("check", flag.ExitOnError)
	prop := fs.String("property", "", "property id")
	tier := fs.String("tier", os.Getenv("VERIF_TIER"), "quick|thorough")
	workers := fs.Int("workers", min(runtime.NumCPU(), 16), "parallel workers")
	verifDir := fs.String("verif", verifRoot(), "verif root")
	repo := fs.String("repo", "/repo", "repository")
	fs.Parse(args)
	if *tier == "" {
		*tier = "quick"
	}
	if *prop == "" {
		usage()
	}
	cfg := driver.Config{VerifDir: *verifDir, Repo: *repo, Workers: *workers, Tier: *tier, Seed: int64(envInt("VERIF_SEED", 1))}
	return driver.Check(cfg, *prop)
}

func verifRoot() string {
	if v := os.Getenv("VERIF_ROOT"); v != "" {
		return v
	}
	exe, err := os.Executable()
	if err == nil {
		d := filepath.Dir(filepath.Dir(exe)) // <root>/bin/gosym
		if _, err := os.Stat(filepath.Join(d, "harness")); err == nil {
			return d
		}
	}
	return "/verif"
}

func cmdRun(args []string) int {
	fs := flag.NewFlagSet("run", flag.ExitOnError)
	pkg := fs.String("pkg", "", "import path of the harness package")
	fn := fs.String("func", "", "harness function")
	params := fs.String("params", "", "comma separated int params")
	workers := fs.Int("workers", min(runtime.NumCPU(), 16), "parallel workers")
	show := fs.Int("show", 5, "violations / witnesses to print")
	verifDir := fs.String("verif", verifRoot(), "verif root")
	repo := fs.String("repo", "/repo", "repository")
	maxPaths := fs.Int("max-paths", 2_000_000, "path budget")
	debug := fs.Bool("debug", false, "debug output")
	noReplay := fs.Bool("no-replay", false, "skip native replay")
	solverKind := fs.String("solver", "z3-new", "z3|z3-new|cvc5")
	mapPerm := fs.Int("map-perm", 4, "max map entries under symbolic iteration order")
	xcheck := fs.String("xcheck", "", "second solver for assertion queries: z3|cvc5")
	orderPol := fs.Int("order-policies", 0, "global map-order policies per path instead of all permutations")
	byteEnum := fs.Bool("byte-enum", false, "decide single-byte branch feasibility by enumeration")
	fs.Parse(args)
	var ps []int64
	if *params != "" {
		for _, p := range strings.Split(*params, ",") {
			n, err := strconv.ParseInt(strings.TrimSpace(p), 10, 64)
			if err != nil {
				fmt.Fprintln(os.Stderr, err)
				return 2
			}
			ps = append(ps, n)
		}
	}
	cfg := driver.Config{VerifDir: *verifDir, Repo: *repo, Workers: *workers, Tier: "quick", Seed: int64(envInt("VERIF_SEED", 1)), Debug: *debug, Solver: *solverKind, XCheck: *xcheck}
	if os.Getenv("GOSYM_SLOWLOG") != "" {
		f, _ := os.Create(os.Getenv("GOSYM_SLOWLOG"))
		solver.SlowLog = f
		if v := os.Getenv("GOSYM_SLOWMS"); v != "" {
			ms, _ := strconv.Atoi(v)
			solver.SlowThreshold = float64(ms) / 1000
		}
		defer f.Close()
	}
	if pf := os.Getenv("GOSYM_CPUPROFILE"); pf != "" {
		if f, err := os.Create(pf); err == nil {
			pprof.StartCPUProfile(f)
			defer pprof.StopCPUProfile()
		}
	}
	t0 := time.Now()
	s, err := driver.Open(cfg, []string{*pkg})
	if err != nil {
		fmt.Fprintln(os.Stderr, "load:", err)
		return 2
	}
	defer s.Close()
	fmt.Fprintf(os.Stderr, "loaded+init in %.1fs\n", time.Since(t0).Seconds())
	rep := s.Explore(driver.Case{Pkg: *pkg, Func: *fn, Params: ps, MaxPaths: *maxPaths, WitnessEvery: 50, MaxMapPerm: *mapPerm, ByteEnum: *byteEnum, OrderPolicies: *orderPol})
	rep.Print(os.Stdout, *show)
	fmt.Printf("  solver: %+v\n", s.SolverTotals())
	for k, v := range s.ForkSites() {
		fmt.Printf("  forks %6d at %s\n", v, k)
	}
	if !*noReplay {
		rr := s.Replay([]*driver.CaseReport{rep})
		b, _ := json.MarshalIndent(rr.Summary(), "", " ")
		fmt.Println(string(b))
	}
	keys := make([]string, 0)
	for k, v := range s.Used() {
		keys = append(keys, v+" "+k)
	}
	sort.Strings(keys)
	if *debug {
		for _, k := range keys {
			fmt.Println("  used:", k)
		}
	}
	return 0
}
