package main

import (
	"fmt"
	"os"
	"time"

	"golang.org/x/tools/go/packages"
	"golang.org/x/tools/go/ssa"
	"golang.org/x/tools/go/ssa/ssautil"
)

func main() {
	t0 := time.Now()
	cfg := &packages.Config{Mode: packages.LoadAllSyntax, Dir: "/repo"}
	pkgs, err := packages.Load(cfg, os.Args[1])
	if err != nil {
		panic(err)
	}
	fmt.Println("load", time.Since(t0))
	prog, spkgs := ssautil.AllPackages(pkgs, ssa.InstantiateGenerics)
	fmt.Println("create", time.Since(t0))
	for _, p := range spkgs {
		p.Build()
	}
	fmt.Println("build roots", time.Since(t0))
	n := 0
	for _, p := range prog.AllPackages() {
		n++
		_ = p
	}
	fmt.Println("pkgs", n)
	if len(os.Args) > 2 {
		f := spkgs[0].Func(os.Args[2])
		f.WriteTo(os.Stdout)
		for _, an := range f.AnonFuncs {
			an.WriteTo(os.Stdout)
			for _, an2 := range an.AnonFuncs {
				an2.WriteTo(os.Stdout)
			}
		}
	}
}
