#!/bin/sh
# usage: confirm_seed.sh <id> <patch.diff> <demo_test.go> <target path relative to repo> 
# Confirms in a fresh scratch worktree of /repo HEAD: patch applies; suite passes with it;
# demo fails with it and passes without it. Removes the worktree afterwards.
id="$1"; patch="$2"; demo="$3"; target="$4"
export GOFLAGS=-mod=mod GOPROXY=off
wt=/tmp/seedwt-$id
git -C /repo worktree add -q --detach "$wt" HEAD || exit 2
cd "$wt"
res="id=$id"
git apply "$patch" && res="$res applies=yes" || { res="$res applies=NO"; echo "$res"; git -C /repo worktree remove --force "$wt"; exit 1; }
if go build ./... >/dev/null 2>&1 && go test -vet=off -count=1 ./... >/tmp/seed_suite_$id.log 2>&1; then res="$res suite_with_patch=pass"; else res="$res suite_with_patch=FAIL"; fi
cp "$demo" "$target"
pkgdir=$(dirname "$target")
if go test -vet=off -count=1 ./$pkgdir/ >/tmp/seed_demo_with_$id.log 2>&1; then res="$res demo_with_patch=PASS(bad)"; else res="$res demo_with_patch=fail"; fi
git checkout -q -- . 
if go test -vet=off -count=1 ./$pkgdir/ >/tmp/seed_demo_without_$id.log 2>&1; then res="$res demo_without_patch=pass"; else res="$res demo_without_patch=FAIL(bad)"; fi
echo "$res"
cd /; git -C /repo worktree remove --force "$wt"
