#!/bin/sh
# Re-runs, for every seeded change, the quick check that is recorded as catching it (meta.json "check",
# default: its "property") - applies each to /repo and reverts. One line per seed: <id> == <Cxx> exit=<code>.
# A run is cut off after SEED_TIMEOUT seconds (default 1500; exit=124 then).
# Needs /repo and /verif/harness to itself while it runs (about an hour on an idle 16-core machine).
cd /verif
for d in seeded/*/; do
  id=$(basename "$d")
  [ -f "$d/meta.json" ] || continue
  prop=$(python3 -c "import json;m=json.load(open('$d/meta.json'));print(m.get('check',m['property']))")
  out=$(timeout ${SEED_TIMEOUT:-1500} sh tools/try_patch.sh /verif/$d/patch.diff $prop 2>&1 | grep -E "^==|does not apply|not clean" | head -1)
  if [ -z "$out" ]; then
    out="== $prop exit=124 (cut off)"
    pkill -f "gosym check --property $prop" 2>/dev/null
    sleep 2
    git -C /repo checkout -- . 2>/dev/null
    for e in /tmp/try_patch_ev.*; do [ -d "$e" ] && cp -a "$e"/. /verif/evidence/ && rm -rf "$e"; done
  fi
  echo "$id $out"
done
