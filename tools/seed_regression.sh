#!/bin/sh
# Re-runs the quick check of its property against every seeded change (applies each to /repo and reverts).
# Output: one line per seed: <id> <property> exit=<code>
cd /verif
for d in seeded/*/; do
  id=$(basename "$d")
  [ -f "$d/meta.json" ] || continue
  prop=$(python3 -c "import json;print(json.load(open('$d/meta.json'))['property'])")
  out=$(sh tools/try_patch.sh /verif/$d/patch.diff $prop 2>&1 | grep "^==" | head -1)
  echo "$id $out"
done
