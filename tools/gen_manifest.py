#!/usr/bin/env python3
"""Regenerates /verif/MANIFEST.json from the table below (run after adding a check)."""
import json, os
root = os.path.dirname(os.path.dirname(os.path.abspath(__file__)))
props = [json.loads(l) for l in open(os.path.join(root, 'properties.jsonl'))]
TECH = "bounded symbolic execution over go/ssa + SMT (z3), native replay"
TRUST = ("Trusted: go/ssa's translation, the gosym interpreter, z3 5.1.0; exact intrinsics validated by `gosym selftest`; "
         "every counterexample and a sample of path witnesses are replayed against the real build before anything is reported. ")
claimed = {
 "C19": dict(
  text="Bounded symbolic execution of the real camelcase.Split and the six converters from their go/ssa form: every byte string up to the bound (quick: Split <= 5 bytes, converters <= 3 bytes; thorough: 7 / 5; valid and invalid UTF-8) is covered by path exploration with solver-decided branch feasibility; assertions (no panic, non-empty words, concatenation == input, invalid UTF-8 => single word, same result twice) are discharged on every path. Nothing is claimed beyond the byte-length bound.",
  note="Unicode class predicates are exact SMT definitions generated from the toolchain tables; golang.org/x/text/cases.Title(..).String is a contract stub (total, arbitrary result).", ref="DESIGN.md §3"),
 "C15": dict(
  text="Bounded symbolic execution of the real ParseTypeRef / TypeRef.String / ParseRef: every reference tree shape up to the bound (quick: 183 shapes of <= 4 levels x <= 2 arguments, 85 shapes with <= 3 arguments, per-node path split on <= 3 levels; thorough: 33 673 shapes of <= 5 levels) with symbolic identifier and path bytes must parse to exactly the reference tree and print back to the input; bracket-free references of arbitrary bytes (<= 5 / <= 10) are split at the last dot and ParseRef agrees; PkgImportPathAndExpose agrees with ParseRef on every string of <= 6 / <= 7 arbitrary bytes and on vendored paths; nested generic references (own-package and foreign, rendered repeatedly) are rewritten to import names by the real namer + tracker.",
  note="Inside brackets identifier/path bytes are ASCII and 1-2 bytes long.", ref="DESIGN.md §3 C15"),
 "C09": dict(
  text="Bounded symbolic execution of the real snippet.T / Sprintf / Comment / GoDirective / Snippets / Fragments (with the real text/scanner interpreted) against an independent reference renderer executed next to it: equality of panic behaviour and of output bytes for every ASCII format up to the bound (quick: 6 bytes; thorough: 8 bytes), with nil, literal, placeholder-looking and nested-template bindings.",
  note="Domain restrictions (bare @, nil interface arguments, non-Snippet Sprintf arguments, NUL/BOM/invalid UTF-8) are listed in the evidence under outside_bounds.", ref="DESIGN.md §3 C09"),
 "C12": dict(
  text="(a) Tag half: bounded symbolic execution of the real ExtractCommentTags / splitKV / commentLinesFrom against a reference line classifier for every list of k lines x n ASCII bytes within the bound (every line classified exactly once, order kept, key/value split at the first '=' or space, repeated keys keep all values in order; go: lines skipped). (b) Attribution, partial: the real newPkg comment indexing and Doc/Comment run on a struct type with k <= 3 (thorough 4) fields, on const and type groups and on ungrouped variable declarations, in every combination of no doc / attached doc / detached comment and trailing / no trailing comment per field: Doc is exactly the group directly above, Comment exactly the trailing comment, and a previous line's trailing comment is never reported as documentation. (c) Both halves together: Doc/Comment on fields whose comment texts are arbitrary printable ASCII (multi-name fields included), and declarations 2^8 / 2^16 lines apart.",
  note="PARTIAL: every attribution scenario exists twice - with a harness-built AST (go/parser's comment-attachment rules modelled, validated by native replay) and with the real go/parser interpreted under the engine (nothing assumed); a further family (Layouts) covers functions as neighbours, multi-name specs, var groups, multi-name fields, import specs, inner trailing comments of multi-line literals. Several files, methods, interface members are not exercised.", ref="DESIGN.md §3 C12"),
 "C14": dict(
  text="(a) The real ResultsOf on real programs: the real go/parser and go/types checker are executed under the engine (interpreted from source), so a scenario is Go source - a three-package module (r <- q <- p) whose nine functions take their bodies from menus of return / assignment / call shapes (literals, forwarded and nested calls, every call graph incl. self and mutual recursion, closures passed as arguments with more / fewer results than the callee, interface calls, named results, struct fields, calls into the imported package); explored for every menu choice of every single function (thorough: four contexts + 7 pairs varying together) under 3 map-order policies: no panic, no runaway recursion, n = declared results, exactly n non-empty lists, every alternative typed and assignable to the declared type, same answer on a second call, literal-only bodies give exactly their values in source order. (b) Literal contents symbolic: integer digits, string bytes and a boolean of a literal-only function are decided by the solver through scanner, parser, checker, go/format and types.Eval (quick <= 4 bytes, thorough <= 6). (c) The recursion guard visits.visited as a lemma from every pre-state reachable by <= 3 (thorough 5) earlier guard calls with symbolic indexes, functions with up to 33 (65) results.",
  note="PARTIAL: programs are instances of the menus (no loops / switches / generics / curried calls; int, string, bool, error results; two packages); that the recursion is bounded for every program rests on the guard lemma plus the finite set of (FuncType, index) pairs (paper argument), the scenarios exercise it on every call graph over five functions. Map ranges inside go/parser / go/types run in insertion order.", ref="DESIGN.md §3 C14"),
}
claimed["C10"] = dict(
  text="Bounded symbolic execution of the real Dumper.ValueLit on values of a fixed family of Go types (booleans, integers incl. the extremes, strings of 1 (thorough 2) ARBITRARY bytes, named scalars, runes, single-level pointers to scalars / named scalars / zero and non-zero structs, nested structs with unexported fields, nil / empty / filled slices, arrays, maps with string / int / bool / named / array / struct keys, single arbitrary runes of 2-3 bytes, pointers to composites, a struct type of another package, same-named types of two same-named packages, a recursive type with every container chain to depth 4 (6)): the rendered text, as initialiser of a variable of the value's type in a file that imports exactly what the import tracker registered, is parsed and type-checked by the real go/parser and go/types checker (both interpreted under the engine), its type must be identical to the value's type, and an evaluator over the checked syntax tree must give back the canonical form of the original value (zero fields omitted, nil = empty); the text must not depend on the order reflect returns map keys in. All string bytes are decided by the solver through strconv.Quote, scanner, parser, checker and Unquote.",
  note="PARTIAL: reflect is a model under the engine (projections of the interpreter's typed values; natively the real reflect runs and every sampled path is compared); no floats / complex, no uint64 above MaxInt64 (math/big assembly), foreign types limited to three struct types, one field group at a time; 'compiles and evaluates' = go/types + the harness evaluator, not the Go compiler.", ref="DESIGN.md §3 C10")
claimed["C03"] = dict(
  text="Bounded symbolic execution of the real naming system (defaultImportTracker, golangTrackerLocalName, toLocalName -> camelcase, rawNamer, writeImports; the std table built by the real init from the embedded std.list): for symbolic path segments within the bound every derived local name is a non-empty, valid, non-keyword identifier; every history of <= 3 AddType calls with symbolic (possibly clashing / repeated) paths keeps path<->name inverse and injective, earlier bindings stable, re-adding a no-op, std names reserved; rawNamer qualifies with the registered name, leaves the own package unqualified and unimported, and Imports() is exactly the referenced set; writeImports prints exactly one line per entry under every map iteration order.",
  note="x/text title-casing: native for concrete input, exact model for ASCII alphanumeric words, stub otherwise. Not covered: that the parsed generated file uses these names (go/parser), PkgExpose / go-types based references.", ref="DESIGN.md §3 C03")
na = {
 "C01": "validity / gofmt+gofumpt fixed point is decided inside go/parser, go/printer and mvdan.cc/gofumpt (pointer-rich AST code over arbitrary Go files): cannot be encoded for the solver; stubbing them would assume the property (DESIGN.md §5)",
 "C16": "requires compiling and running generated programs (DESIGN.md §5)",
 "C17": "requires compiling and running generated programs (DESIGN.md §5)",
 "C18": "requires compiling and running generated programs (DESIGN.md §5)",
}
extra = os.path.join(root, 'tools', 'manifest_extra.json')
if os.path.exists(extra):
    e = json.load(open(extra))
    claimed.update(e.get('claimed', {}))
    na.update(e.get('na', {}))
pending = "check not built yet in this round (planned, see DESIGN.md); not claimed until it runs clean on the unchanged tree"
m = {
 "version": 1,
 "setup_cmd": "sh /verif/setup.sh",
 "hooks": {"guard": "verif", "enable": "none needed: harnesses are injected by overlay (go/packages Overlay for the engine, go test -overlay for native replay); no hook commits exist in /repo",
           "baseline_off_cmd": "cd /repo && GOFLAGS=-mod=mod GOPROXY=off go test -vet=off -count=1 ./...", "source_commits": [], "add_only": True},
 "engines": [{"name": "gosym", "path": "/verif/engine", "serves_properties": sorted(claimed),
              "kind_free_text": "bounded symbolic execution of the real code: own symbolic interpreter over go/ssa (regenerated from /repo's working tree on every run) -> SMT-LIB2 QF_BV -> z3 5.1.0 (z3-new); counterexamples and sampled path witnesses replayed natively with go test -overlay"}],
 "checks": [], "not_applicable": [],
 "notes": "exit 0 = held within the stated bounds; exit 1 = VIOLATION (natively replayed); exit 2 = inconclusive (unsupported code reached, solver unknown, engine/native mismatch) - never registered for the unchanged tree. Bounds and what lies outside them are in each evidence file.",
}
for p in props:
    i = p['id']
    if i in claimed:
        c = claimed[i]
        m['checks'].append({
          "property_id": i, "quick_cmd": f"sh check.sh {i} quick", "thorough_cmd": f"sh check.sh {i} thorough",
          "evidence_file": f"/verif/evidence/{i}.json", "replay_cmd_template": "bin/gosym replay {path}", "engine": "gosym",
          "level_claimed": {"category": "model_checking", "text": c['text'], "design_ref": c['ref']},
          "level_note": TRUST + c['note'], "technique": c.get('technique', TECH)})
    else:
        m['not_applicable'].append({"property_id": i, "reason": na.get(i, pending)})
json.dump(m, open(os.path.join(root, 'MANIFEST.json'), 'w'), indent=1)
print("claimed:", sorted(claimed), "n/a:", [x['property_id'] for x in m['not_applicable']])
