#!/bin/sh
# usage: try_patch.sh <patch.diff> <property> [<property>...]
# Applies a seeded change to /repo, runs the quick checks, and reverts /repo.
patch="$1"; shift
cd /repo || exit 2
if [ -n "$(git status --porcelain)" ]; then echo "repo not clean"; exit 2; fi
git apply "$patch" || { echo "patch does not apply"; exit 2; }
# evidence files are rewritten by every check run: keep the clean-tree ones
save=$(mktemp -d /tmp/try_patch_ev.XXXXXX); cp -a /verif/evidence/. "$save"/
for p in "$@"; do
  sh /verif/check.sh "$p" "${TIER:-quick}" > /tmp/try_$p.log 2>&1
  rc=$?
  echo "== $p exit=$rc"
  grep -E "^VIOLATION|^INCONCLUSIVE|^KNOWN-FINDING" /tmp/try_$p.log | head -${SHOW:-4}
  grep -A1 "^VIOLATION" /tmp/try_$p.log | grep -v "^VIOLATION\|^--" | head -${SHOW:-4} | cut -c1-300
done
git checkout -- . && git status --porcelain
cp -a "$save"/. /verif/evidence/; rm -rf "$save"
