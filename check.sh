#!/bin/sh
# usage: check.sh <property> <quick|thorough>
# Runs one property check against /repo's current working tree.
# exit 0 = held, 1 = VIOLATION (replayed natively), 2 = inconclusive / engine problem.
here="$(cd "$(dirname "$0")" && pwd)"
export GOFLAGS=-mod=mod GOPROXY=off VERIF_ROOT="$here"
if [ ! -x "$here/bin/gosym" ] || [ -n "$(find "$here/engine" -name '*.go' -newer "$here/bin/gosym" 2>/dev/null | head -1)" ]; then
  VERIF_SKIP_SELFTEST=1 sh "$here/setup.sh" >/dev/null || { echo "INCONCLUSIVE: engine build failed"; exit 2; }
fi
# VERIF_REPO: check another checkout than /repo (used for background runs on a snapshot)
exec "$here/bin/gosym" check --property "$1" --tier "${2:-quick}" --repo "${VERIF_REPO:-/repo}"
