#!/bin/sh
# Builds the gosym engine offline from /verif/engine (module cache only), then
# runs the engine self-test (Unicode definitions vs the real functions, UTF-8
# lemma, x/text Title model, string intrinsics with native replay). A failing
# self-test is reported but does not fail the setup: every check validates the
# engine on its own run by native replay of path witnesses.
set -e
here="$(cd "$(dirname "$0")" && pwd)"
cd "$here/engine"
export GOFLAGS=-mod=mod GOPROXY=off VERIF_ROOT="$here"
go build -o ../bin/gosym ./cmd/gosym
echo "built $here/bin/gosym"
if [ -z "$VERIF_SKIP_SELFTEST" ]; then
  if ../bin/gosym selftest > "$here/selftest.log" 2>&1; then
    echo "selftest: ok (log: $here/selftest.log)"
  else
    echo "WARNING: gosym selftest failed, see $here/selftest.log"
  fi
fi
