#!/bin/sh
# Builds the gosym engine offline from /verif/engine (module cache only).
set -e
cd "$(dirname "$0")/engine"
export GOFLAGS=-mod=mod GOPROXY=off
go build -o ../bin/gosym ./cmd/gosym
echo "built $(cd .. && pwd)/bin/gosym"
