// Package verifsym is the harness-side API of the gosym symbolic executor.
//
// It is injected into the module by overlay only (never committed to /repo).
// Under the engine every function here is intercepted; natively the functions
// read a recorded assignment, which is how counterexamples and path witnesses
// are replayed against the real build.
package verifsym

import (
	"encoding/json"
	"fmt"
	"os"
	"path/filepath"
	"reflect"
	"sort"
	"strings"
	"testing"
)

type inputVal struct {
	K string `json:"k"`
	V int64  `json:"v"`
}

type Case struct {
	ID      string     `json:"id"`
	Harness string     `json:"harness"`
	Params  []int64    `json:"params"`
	Inputs  []inputVal `json:"inputs"`
	Repeat  int        `json:"repeat"` // > 0: run up to this many times, report the first run that does not end "ok"
}

type Result struct {
	ID       string   `json:"id"`
	Outcome  string   `json:"outcome"` // ok | assert | panic | assume | underflow
	Msg      string   `json:"msg"`
	Observes []string `json:"observes"`
	Reached  []string `json:"reached"`
	Consumed int      `json:"consumed"`
}

type assertFail struct{ msg string }
type assumeFail struct{}

var cur struct {
	inputs    []inputVal
	pos       int
	underflow bool
	observes  []string
	reached   []string
}

func next(kind string) int64 {
	if cur.pos >= len(cur.inputs) {
		cur.underflow = true
		cur.pos++
		return 0
	}
	v := cur.inputs[cur.pos]
	cur.pos++
	if v.K != kind {
		cur.underflow = true
	}
	return v.V
}

func Byte() byte { return byte(next("byte")) }
func Bool() bool { return next("bool") != 0 }
func Rune() rune { return rune(next("rune")) }
func Int() int   { return int(next("int")) }

// IntRange is a case split: concrete on every explored path.
func IntRange(lo, hi int) int { return int(next("split")) }

func Bytes(n int) []byte {
	b := make([]byte, n)
	for i := range b {
		b[i] = Byte()
	}
	return b
}

func String(n int) string { return string(Bytes(n)) }

func Assume(b bool) {
	if !b {
		panic(assumeFail{})
	}
}

func Assert(b bool, msg string) {
	if !b {
		panic(assertFail{msg})
	}
}

func Reach(label string) { cur.reached = append(cur.reached, label) }

// KF registers a known-finding predicate over the inputs of the current path.
func KF(id string, pred bool) {}

// Panics runs f and reports whether it panicked.
func Panics(f func()) (p bool) {
	defer func() {
		if r := recover(); r != nil {
			switch r.(type) {
			case assertFail, assumeFail:
				panic(r)
			}
			p = true
		}
	}()
	f()
	return false
}

// Symbolic reports whether the harness runs under the symbolic engine.
func Symbolic() bool { return false }

// Observe records a value; under the engine it is evaluated under the path
// witness and compared with what the native run records here.
func Observe(label string, v any) {
	cur.observes = append(cur.observes, label+"="+Canon(v))
}

func Canon(v any) string {
	if v == nil {
		return "nil"
	}
	rv := reflect.ValueOf(v)
	return canon(rv)
}

func canon(rv reflect.Value) string {
	switch rv.Kind() {
	case reflect.Bool:
		return fmt.Sprint(rv.Bool())
	case reflect.Int, reflect.Int8, reflect.Int16, reflect.Int32, reflect.Int64:
		return fmt.Sprint(rv.Int())
	case reflect.Uint, reflect.Uint8, reflect.Uint16, reflect.Uint32, reflect.Uint64, reflect.Uintptr:
		switch rv.Kind() {
		case reflect.Uint8:
			return fmt.Sprint(int64(int8(rv.Uint())))
		case reflect.Uint16:
			return fmt.Sprint(int64(int16(rv.Uint())))
		case reflect.Uint32:
			return fmt.Sprint(int64(int32(rv.Uint())))
		}
		return fmt.Sprint(int64(rv.Uint()))
	case reflect.String:
		return fmt.Sprintf("%q", rv.String())
	case reflect.Slice, reflect.Array:
		parts := make([]string, rv.Len())
		for i := range parts {
			parts[i] = canon(rv.Index(i))
		}
		return "[" + strings.Join(parts, ",") + "]"
	case reflect.Map:
		var parts []string
		it := rv.MapRange()
		for it.Next() {
			parts = append(parts, canon(it.Key())+":"+canon(it.Value()))
		}
		sort.Strings(parts)
		return "map[" + strings.Join(parts, ",") + "]"
	case reflect.Struct:
		parts := make([]string, rv.NumField())
		for i := range parts {
			parts[i] = canon(rv.Field(i))
		}
		return "{" + strings.Join(parts, ",") + "}"
	case reflect.Pointer:
		if rv.IsNil() {
			return "nil"
		}
		return "&" + canon(rv.Elem())
	case reflect.Interface:
		if rv.IsNil() {
			return "nil"
		}
		return canon(rv.Elem())
	}
	return "<" + rv.Kind().String() + ">"
}

// RunReplay is called from the generated TestVerifReplay of each harness package.
// extra: harnesses registered by optional files (zz_verif_opt_*.go) from init().
var extra = map[string]any{}

// Register adds a harness to the replay table of its package (used by optional
// white-box harness files, which may be left out when they do not compile).
func Register(name string, h any) { extra[name] = h }

func RunReplay(t *testing.T, harnesses map[string]any) {
	for k, v := range extra {
		if _, ok := harnesses[k]; !ok {
			harnesses[k] = v
		}
	}
	in, out := os.Getenv("VERIFSYM_CASES"), os.Getenv("VERIFSYM_RESULT")
	if in == "" {
		t.Skip("no VERIFSYM_CASES")
	}
	data, err := os.ReadFile(in)
	if err != nil {
		t.Fatal(err)
	}
	var cases []Case
	if err := json.Unmarshal(data, &cases); err != nil {
		t.Fatal(err)
	}
	var results []Result
	for _, c := range cases {
		h, ok := harnesses[c.Harness]
		if !ok {
			continue
		}
		r := runOne(c, h)
		for i := 1; i < c.Repeat && r.Outcome == "ok"; i++ {
			r = runOne(c, h)
		}
		results = append(results, r)
	}
	b, _ := json.Marshal(results)
	if err := os.WriteFile(out, b, 0o644); err != nil {
		t.Fatal(err)
	}
}

func runOne(c Case, h any) (res Result) {
	cur.inputs, cur.pos, cur.underflow = c.Inputs, 0, false
	cur.observes, cur.reached = nil, nil
	res.ID = c.ID
	defer fsCleanup()
	defer func() {
		res.Observes, res.Reached, res.Consumed = cur.observes, cur.reached, cur.pos
		if r := recover(); r != nil {
			switch r := r.(type) {
			case assertFail:
				res.Outcome, res.Msg = "assert", r.msg
			case assumeFail:
				res.Outcome = "assume"
			default:
				res.Outcome, res.Msg = "panic", fmt.Sprint(r)
			}
		} else {
			res.Outcome = "ok"
		}
		if cur.underflow {
			res.Outcome = "underflow:" + res.Outcome
		}
	}()
	fv := reflect.ValueOf(h)
	args := make([]reflect.Value, len(c.Params))
	for i, p := range c.Params {
		args[i] = reflect.ValueOf(int(p))
	}
	fv.Call(args)
	return
}

// ---------------------------------------------------------------- filesystem
//
// Under the engine these act on an in-engine filesystem model rooted at
// FSRoot() (package os is stubbed); natively they act on a real temporary
// directory, so that the same harness replays against the real os package.

var fsRoot string

func FSRoot() string {
	if fsRoot == "" {
		d, err := os.MkdirTemp("", "verifsym-fs-")
		if err != nil {
			panic(err)
		}
		fsRoot = d
	}
	return fsRoot
}

func fsCleanup() {
	if fsRoot != "" {
		os.RemoveAll(fsRoot)
		fsRoot = ""
	}
}

func FSPut(path, data string) {
	os.MkdirAll(filepath.Dir(path), 0o755)
	if err := os.WriteFile(path, []byte(data), 0o644); err != nil {
		panic(err)
	}
}

func FSMkdir(path string) { os.MkdirAll(path, 0o755) }

func FSGet(path string) (string, bool) {
	b, err := os.ReadFile(path)
	if err != nil {
		return "", false
	}
	return string(b), true
}

// FSFailOpen makes opening path for writing fail (natively: a directory of that name).
func FSFailOpen(path string) {
	os.RemoveAll(path)
	os.MkdirAll(path, 0o755)
}

// FSTrace returns the ordered list of filesystem effects (engine only; nil natively).
func FSTrace() []string { return nil }

// FSList lists all regular files under the root (sorted).
func FSList() []string {
	var out []string
	filepath.Walk(FSRoot(), func(p string, info os.FileInfo, err error) error {
		if err == nil && info.Mode().IsRegular() {
			out = append(out, p)
		}
		return nil
	})
	sort.Strings(out)
	return out
}

// ParsedSources returns [name0, text0, name1, text1, ...] of everything handed
// to the (stubbed) Go parser on this path (engine only; nil natively).
func ParsedSources() []string { return nil }

// Or / And / Not evaluate both operands (no short-circuit): under the engine
// they build one Boolean term instead of forking the path.
// MapOrderBaseline: under the engine, while switched on every map range runs in
// insertion order without being a choice point (the reference run of a
// determinism harness). Natively a no-op: Go's iteration order is random anyway.
func MapOrderBaseline(on bool) {}

func Or(a, b bool) bool  { return a || b }
func And(a, b bool) bool { return a && b }
func Not(a bool) bool    { return !a }

// Provide hands a prepared value to an environment stub of the engine
// (e.g. the result of packages.Load); a no-op natively.
func Provide(key string, v any) {}
