package pt

// P: same package name and type name as verifa/pt.P, another type
type P struct {
	X int
}
