package pt

// P: a struct type; a package of the same name declares a type of the same name
type P struct {
	X int
}
