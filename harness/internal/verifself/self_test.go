package verifself

import (
	"testing"

	"github.com/octohelm/gengo/internal/verifsym"
)

func TestVerifReplay(t *testing.T) {
	verifsym.RunReplay(t, map[string]any{
		"Verif_Self_UTF8RoundTrip": Verif_Self_UTF8RoundTrip,
		"Verif_Self_Strings":       Verif_Self_Strings,
	})
}
