package internal

import (
	"unicode/utf8"

	"github.com/octohelm/gengo/internal/verifsym"
)

// ---------------------------------------------------------------- C20

func vRule(k int) *Rule { return Defaults.rules[RuleType(k)] }

// Verif_C20_Total: for every valid UTF-8 string of n bytes, inflection with
// rule k (0 plural, 1 singular) returns without panicking, and the memoising
// wrapper returns that same result on the first and on a later call.
func Verif_C20_Total(k, n int) {
	s := verifsym.String(n)
	verifsym.Assume(utf8.ValidString(s))
	r := vRule(k)
	r.cache.Clear()
	out := ""
	panicked := verifsym.Panics(func() { out = r.inflected(s) })
	verifsym.Assert(!panicked, "inflection panics")
	if panicked {
		return
	}
	a := r.Inflected(s)
	b := r.Inflected(s)
	verifsym.Assert(a == out && b == out, "memoised result differs from the computed one")
	verifsym.Observe("out", out)
	verifsym.Reach("end")
}

func vIsWordByte(c byte) bool {
	and, or := verifsym.And, verifsym.Or
	return or(or(and(c >= '0', c <= '9'), and(c >= 'A', c <= 'Z')), or(and(c >= 'a', c <= 'z'), c == '_'))
}

// Verif_C20_IrregularPrefix: irregular word number w of rule k with every
// letter symbolically lower or upper case, preceded by a prefix of p symbolic
// bytes (valid UTF-8) whose last rune is not a word character: the prefix is
// preserved unchanged and the word is inflected exactly as on its own.
func Verif_C20_IrregularPrefix(k, w, p int) {
	r := vRule(k)
	verifsym.Assume(w < len(r.Irregular))
	word := r.Irregular[w].Word
	wb := make([]byte, len(word))
	for i := range wb {
		c := verifsym.Byte()
		verifsym.Assume(c|0x20 == word[i]) // the letter in lower or upper case
		wb[i] = c
	}
	prefix := verifsym.String(p)
	verifsym.Assume(utf8.ValidString(prefix))
	lastRune, size := utf8.DecodeLastRuneInString(prefix)
	verifsym.Assume(size > 0)
	if size == 1 {
		verifsym.Assume(!vIsWordByte(byte(lastRune)))
	}
	alone := ""
	with := ""
	panicked := verifsym.Panics(func() {
		alone = r.inflected(string(wb))
		with = r.inflected(prefix + string(wb))
	})
	verifsym.Assert(!panicked, "inflection of an irregular word panics")
	if panicked {
		return
	}
	verifsym.Assert(with == prefix+alone, "text before the irregular word is not preserved / the word is inflected differently than on its own")
	verifsym.Observe("alone", alone)
	verifsym.Observe("with", with)
	verifsym.Reach("end")
}

var vSubjects = []string{
	"", "a", "s", "person", "people", "Person", "PERSON", "old-person", "old person", "a\nperson", "xperson", "x_person",
	"opus", "opuſ", "aſex", "sex", "Kine", "Kine", "child", "Children", "man", "woman", "men", "ox", "oxen", "box", "quiz",
	"mouse", "matrix", "vertex", "index", "status", "alias", "axis", "crisis", "testis", "octopus", "virus", "bus", "buffalo", "tomato",
	"news", "media", "multimedia", "sea-bass", "sea bass", "fish", "jellyfish", "sheep", "deer", "Portuguese", "portuguese", "rice",
	"hive", "wife", "wolf", "leaf", "half", "datum", "criterion", "é", "世界", "café", "cafe", "cafes", "beef", "niche", "niches",
	"a b", "a-b", "-", "--", " person", "person ", "per\nson", "move", "moves", "movie", "movies", "penis", "genus", "genera",
	"ss", "class", "classes", "\t", "ſ", "mongoose", "Mongooses", "money", "monies", "trilby", "trilbys", "turf", "turfs",
}

// Verif_C20_CallHistory: "the same result for the same input on every call",
// over call histories through the memoising wrapper: for two arbitrary inputs
// s1 (n1 bytes) and s2 (n2 bytes), Inflected(s1), Inflected(s2), Inflected(s1)
// again - and Inflected of the first result - all agree with the uncached
// computation. (A cache entry created as a side effect of another call shows
// here.)
func Verif_C20_CallHistory(k, n1, n2 int) {
	s1, s2 := verifsym.String(n1), verifsym.String(n2)
	verifsym.Assume(utf8.ValidString(s1))
	verifsym.Assume(utf8.ValidString(s2))
	r := vRule(k)
	r.cache.Clear() // natively the cache outlives a replayed case: start every history from an empty cache
	want1, want2 := r.inflected(s1), r.inflected(s2)
	a := r.Inflected(s1)
	b := r.Inflected(s2)
	c := r.Inflected(s1)
	verifsym.Assert(a == want1, "first call differs from the computed result")
	verifsym.Assert(b == want2, "a call after another input differs from the computed result (cache entry created by the earlier call?)")
	verifsym.Assert(c == want1, "a repeated call returns a different result")
	d := r.Inflected(want2)
	verifsym.Assert(d == r.inflected(want2), "inflecting an earlier result differs from the computed result")
	verifsym.Observe("a", a)
	verifsym.Observe("b", b)
	verifsym.Reach("end")
}

// Verif_C20_LongPrefix: an irregular word (number w, letters symbolically lower
// or upper case) behind a LONG prefix: `fill` concrete filler bytes
// ("some-long_prefix " style text containing separators and another irregular
// word) in which one byte at a case-split position is an arbitrary byte that
// keeps the prefix valid UTF-8, followed by one symbolic separator byte that is
// not a word character: the whole prefix is preserved and the word inflected as
// on its own.
func Verif_C20_LongPrefix(k, w, fill int) {
	r := vRule(k)
	verifsym.Assume(w < len(r.Irregular))
	word := r.Irregular[w].Word
	wb := make([]byte, len(word))
	for i := range wb {
		c := verifsym.Byte()
		verifsym.Assume(c|0x20 == word[i])
		wb[i] = c
	}
	filler := []byte("an old-person_and 3 men ate news-worthy rice; ")
	verifsym.Assume(fill <= len(filler))
	pb := append([]byte(nil), filler[:fill]...)
	pb[verifsym.IntRange(0, fill-1)] = verifsym.Byte()
	sep := verifsym.Byte()
	verifsym.Assume(sep < 0x80)
	verifsym.Assume(!vIsWordByte(sep))
	prefix := string(pb) + string([]byte{sep})
	verifsym.Assume(utf8.ValidString(prefix))
	alone := r.inflected(string(wb))
	with := r.inflected(prefix + string(wb))
	verifsym.Assert(with == prefix+alone, "text before the irregular word is not preserved / the word is inflected differently than on its own")
	verifsym.Observe("with", with)
	verifsym.Reach("end")
}

// Verif_C20_TotalLong: inflection of long inputs: `fill` concrete filler bytes
// with two arbitrary bytes at case-split positions (valid UTF-8 assumed): no
// panic, and the memoised result equals the computed one.
func Verif_C20_TotalLong(k, fill int) {
	filler := []byte("sea-bass and Portuguese octopus quizzes")
	verifsym.Assume(fill <= len(filler))
	b := append([]byte(nil), filler[len(filler)-fill:]...)
	i := verifsym.IntRange(0, fill-2)
	j := verifsym.IntRange(i+1, fill-1)
	b[i], b[j] = verifsym.Byte(), verifsym.Byte()
	s := string(b)
	verifsym.Assume(utf8.ValidString(s))
	r := vRule(k)
	r.cache.Clear()
	out := ""
	panicked := verifsym.Panics(func() { out = r.inflected(s) })
	verifsym.Assert(!panicked, "inflection panics")
	if panicked {
		return
	}
	verifsym.Assert(r.Inflected(s) == out && r.Inflected(s) == out, "memoised result differs from the computed one")
	verifsym.Observe("out", out)
	verifsym.Reach("end")
}
