package internal

import (
	"testing"

	"github.com/octohelm/gengo/internal/verifsym"
)

func TestVerifReplay(t *testing.T) {
	verifsym.RunReplay(t, map[string]any{
		"Verif_C20_Total":           Verif_C20_Total,
		"Verif_C20_IrregularPrefix": Verif_C20_IrregularPrefix,
		"Verif_C20_LongPrefix":      Verif_C20_LongPrefix,
		"Verif_C20_TotalLong":       Verif_C20_TotalLong,
		"Verif_C20_CallHistory":     Verif_C20_CallHistory,
	})
}
