package internal

import (
	"github.com/octohelm/gengo/internal/verifsym"
)

// OPTIONAL white-box harness (file name zz_verif_opt_*): it looks at the
// compiled regexps inside Rule, for translator validation only. If a tree no
// longer has these fields the driver leaves this file out (and says so) instead
// of making the whole C20 check inconclusive.

func init() { verifsym.Register("Verif_C20_RegexpDiff", Verif_C20_RegexpDiff) }

// Verif_C20_RegexpDiff: translator validation of the engine's regexp encoding.
// All inputs are concrete; every compiled pattern of rule k is applied to a
// chunk of subjects and the submatch offsets are observed - under the engine by
// its encoding, natively (witness replay) by the real regexp package.
func Verif_C20_RegexpDiff(k, chunk int) {
	r := vRule(k)
	lo, hi := chunk*12, chunk*12+12
	if hi > len(vSubjects) {
		hi = len(vSubjects)
	}
	for _, s := range vSubjects[lo:hi] {
		verifsym.Observe("irr", r.compiledIrregular.FindStringSubmatchIndex(s))
		verifsym.Observe("unf", r.compiledUninflected.MatchString(s))
		var hits []int
		for i, cr := range r.compiledRules {
			if cr.Regexp.MatchString(s) {
				hits = append(hits, i)
				verifsym.Observe("rule", cr.Regexp.FindStringSubmatchIndex(s))
				verifsym.Observe("repl", cr.Regexp.ReplaceAllString(s, cr.Replacement))
			}
		}
		verifsym.Observe("hits", hits)
		verifsym.Observe("inflected", r.inflected(s))
	}
	verifsym.Reach("end")
}
