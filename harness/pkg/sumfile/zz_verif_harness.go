package sumfile

import (
	"github.com/octohelm/gengo/internal/verifsym"
)

// ---------------------------------------------------------------- C08: file format

func vToken(n int) string {
	b := make([]byte, n)
	for i := range b {
		c := verifsym.Byte()
		verifsym.Assume(c > ' ' && c < 0x7F) // printable, non-space (package paths and h1: hashes)
		b[i] = c
	}
	return string(b)
}

// Verif_C08_SumRoundTrip: Data with k entries of symbolic non-space printable
// keys (kn bytes) and values (vn bytes). Save writes one `path hash` line per
// entry sorted by path; loading those bytes back gives the same mapping.
func Verif_C08_SumRoundTrip(k, kn, vn int) {
	root := verifsym.FSRoot()
	f := &File{Dir: root, Data: map[string]string{}}
	var keys, vals []string
	for i := 0; i < k; i++ {
		key := vToken(kn)
		for _, q := range keys {
			verifsym.Assume(key != q)
		}
		v := vToken(vn)
		f.Data[key] = v
		keys = append(keys, key)
		vals = append(vals, v)
	}
	err := f.Save()
	verifsym.Assert(err == nil, "Save fails")
	data, ok := verifsym.FSGet(root + "/gengo.sum")
	verifsym.Assert(ok, "Save did not create gengo.sum in Dir")

	// expected bytes: lines sorted by key
	idx := make([]int, k)
	for i := range idx {
		idx[i] = i
	}
	for i := 0; i < k; i++ {
		for j := i + 1; j < k; j++ {
			if keys[idx[j]] < keys[idx[i]] {
				idx[i], idx[j] = idx[j], idx[i]
			}
		}
	}
	want := ""
	for _, i := range idx {
		want += keys[i] + " " + vals[i] + "\n"
	}
	verifsym.Assert(data == want, "gengo.sum is not one sorted `path hash` line per entry")
	verifsym.Assert(string(f.Bytes()) == want, "Bytes() differs from what Save wrote")

	g, lerr := Load(root)
	verifsym.Assert(lerr == nil && g != nil, "Load fails on a file written by Save")
	if g != nil {
		n := 0
		for range g.Data {
			n++
		}
		verifsym.Assert(n == k, "Load yields a different number of entries")
		for i, key := range keys {
			verifsym.Assert(g.Sum(key) == vals[i], "Load yields a different hash for a package")
		}
		verifsym.Assert(g.Dir == root, "Load does not remember the module root")
	}
	verifsym.Observe("data", data)
	verifsym.Reach("end")
}

// Verif_C08_LoadCorrupt: Load of a file with n arbitrary bytes never panics and
// never fails (a corrupt file simply yields fewer entries); a missing file is an
// error (so the caller treats everything as changed).
func Verif_C08_LoadCorrupt(n int) {
	root := verifsym.FSRoot()
	g, err := Load(root)
	verifsym.Assert(err != nil && g == nil, "Load of a missing gengo.sum must report an error")
	verifsym.FSPut(root+"/gengo.sum", verifsym.String(n))
	panicked := verifsym.Panics(func() {
		g, err = Load(root)
	})
	verifsym.Assert(!panicked, "Load panics on a corrupt file")
	if !panicked {
		verifsym.Assert(err == nil && g != nil, "Load fails on a readable file")
		if g != nil {
			for k, v := range g.Data {
				verifsym.Assert(k != "" && v != "", "Load produced an empty path or hash")
			}
		}
	}
	verifsym.Reach("end")
}

// Verif_C08_SumMany(k, kn, vn): a sum file with k entries - long concrete module
// paths "example.com/mod/pkgNNN/sub" and hashes of 44+ characters, as real
// h1: hashes are - except one entry (case split over its rank among the
// concrete ones) whose key tail of kn bytes and hash tail of vn bytes are
// arbitrary: Save / Bytes / Load round trip, lines sorted, as in SumRoundTrip.
func Verif_C08_SumMany(k, kn, vn int) {
	root := verifsym.FSRoot()
	f := &File{Dir: root, Data: map[string]string{}}
	num := func(i int) string {
		return string([]byte{'0' + byte(i/100%10), '0' + byte(i/10%10), '0' + byte(i%10)})
	}
	var keys, vals []string
	for i := 0; i < k-1; i++ {
		keys = append(keys, "example.com/mod/pkg"+num(i*7)+"/sub")
		vals = append(vals, "h1:"+num(i)+"AbCdEfGhIjKlMnOpQrStUvWxYz0123456789+/abcd=")
	}
	// the symbolic entry sorts somewhere among the others: its prefix is that of a
	// concrete entry chosen by case split
	at := 0
	if k > 1 {
		at = verifsym.IntRange(0, k-2)
	}
	key := "example.com/mod/pkg" + num(at*7) + vToken(kn)
	for _, q := range keys {
		verifsym.Assume(key != q)
	}
	keys = append(keys, key)
	vals = append(vals, "h1:"+vToken(vn)+"AbCdEfGhIjKlMnOpQrStUvWxYz0123456789+/abcd=")
	for i := range keys {
		f.Data[keys[i]] = vals[i]
	}
	verifsym.Assert(f.Save() == nil, "Save fails")
	data, ok := verifsym.FSGet(root + "/gengo.sum")
	verifsym.Assert(ok, "Save did not create gengo.sum in Dir")
	idx := make([]int, k)
	for i := range idx {
		idx[i] = i
	}
	for i := 0; i < k; i++ {
		for j := i + 1; j < k; j++ {
			if keys[idx[j]] < keys[idx[i]] {
				idx[i], idx[j] = idx[j], idx[i]
			}
		}
	}
	want := ""
	for _, i := range idx {
		want += keys[i] + " " + vals[i] + "\n"
	}
	verifsym.Assert(data == want, "gengo.sum is not one sorted `path hash` line per entry")
	g, lerr := Load(root)
	verifsym.Assert(lerr == nil && g != nil, "Load fails on a file written by Save")
	if g != nil {
		n := 0
		for range g.Data {
			n++
		}
		verifsym.Assert(n == k, "Load yields a different number of entries")
		for i, key := range keys {
			verifsym.Assert(g.Sum(key) == vals[i], "Load yields a different hash for a package")
		}
	}
	verifsym.Reach("end")
}
