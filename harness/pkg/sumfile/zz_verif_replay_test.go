package sumfile

import (
	"testing"

	"github.com/octohelm/gengo/internal/verifsym"
)

func TestVerifReplay(t *testing.T) {
	verifsym.RunReplay(t, map[string]any{
		"Verif_C08_SumRoundTrip": Verif_C08_SumRoundTrip,
		"Verif_C08_LoadCorrupt":  Verif_C08_LoadCorrupt,
		"Verif_C08_SumMany":      Verif_C08_SumMany,
	})
}
