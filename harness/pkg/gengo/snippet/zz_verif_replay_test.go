package snippet

import (
	"testing"

	"github.com/octohelm/gengo/internal/verifsym"
)

func TestVerifReplay(t *testing.T) {
	verifsym.RunReplay(t, map[string]any{
		"Verif_C09_Template":     Verif_C09_Template,
		"Verif_C09_TemplateUTF8": Verif_C09_TemplateUTF8,
		"Verif_C09_TemplateLong": Verif_C09_TemplateLong,
		"Verif_C09_SprintfLong":  Verif_C09_SprintfLong,
		"Verif_C09_LongName":     Verif_C09_LongName,
		"Verif_C09_Sprintf":      Verif_C09_Sprintf,
		"Verif_C09_Comment":      Verif_C09_Comment,
		"Verif_C09_GoDirective":  Verif_C09_GoDirective,
		"Verif_C09_Snippets":     Verif_C09_Snippets,
		"Verif_C11_TypeLit":      Verif_C11_TypeLit,
		"Verif_C11_ShadowNames":  Verif_C11_ShadowNames,
		"Verif_C11_Dispatch":     Verif_C11_Dispatch,
	})
}
