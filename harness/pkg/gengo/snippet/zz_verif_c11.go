package snippet

import (
	"context"
	"go/token"
	"go/types"

	"github.com/octohelm/gengo/internal/verifsym"
	"github.com/octohelm/gengo/pkg/gengo/internal"
	"github.com/octohelm/gengo/pkg/namer"
	gengotypes "github.com/octohelm/gengo/pkg/types"
)

// ---------------------------------------------------------------- C11 (go/types side, partial)
//
// The world: three packages made with go/types' own constructors
//
//	self  "example.com/m/self"   type L struct{ N int }
//	q1    "example.com/a/<s1>"   type X int;  type G[T any] struct{ V T }
//	q2    "example.com/b/<s2>"   type Y string
//
// <s1>, <s2> are symbolic lower-case segments (so the two foreign packages may
// or may not want the same import name). A closed type expression over the
// grammar of the statement is chosen by case split, rendered by the real
// snippet.ID(types.Type) -> Dumper.TypeLit -> rawNamer -> import tracker, and
// judged:
//
//   - under the engine by a layout-insensitive token comparison with a
//     reference rendering that uses the import names the tracker handed out;
//   - natively by the real oracle of the statement: the rendered text is
//     type-checked (go/types.Eval) in the target package, with the registered
//     imports in scope, and must be types.Identical to the original type.
//
// Natively both judgements are computed; if they disagree the run reports a
// harness error (so a reference that is wrong shows up as a witness mismatch
// or a non-reproduced counterexample, never as a VIOLATION).

type vTyWorld struct {
	self, q1, q2, q3 *types.Package
	L, X, Y, G       *types.Named
	byPath           map[string]*types.Package
}

func vSeg(n int) string {
	b := verifsym.Bytes(n)
	for i := range b {
		verifsym.Assume(verifsym.And(b[i] >= 'a', b[i] <= 'z'))
	}
	return string(b)
}

// vVendoredQ2: q2 lives under the module's vendor directory (mode 3).
var vVendoredQ2 bool

// vDottedPaths: the last element of q1's and q2's import paths contains a dot
// (gopkg.in style, `.../<s>.v3`); the package name is the part before it (mode 4).
var vDottedPaths bool

func vNewTyWorld(s1, s2 string) *vTyWorld {
	w := &vTyWorld{byPath: map[string]*types.Package{}}
	mk := func(path, name string) *types.Package {
		p := types.NewPackage(path, name)
		w.byPath[path] = p
		return p
	}
	w.self = mk("example.com/m/self", "self")
	w.q1 = mk("example.com/a/"+s1, s1)
	if vDottedPaths {
		delete(w.byPath, w.q1.Path())
		w.q1 = mk("example.com/a/"+s1+".v3", s1)
	}
	if vDottedPaths {
		w.q2 = mk("gopkg.in/"+s2+".v2", s2)
	} else if vVendoredQ2 {
		w.q2 = mk("example.com/m/vendor/example.com/b/"+s2, s2)
	} else {
		w.q2 = mk("example.com/b/"+s2, s2)
	}
	w.q3 = mk("example.com/c/"+s1, s1)
	named := func(p *types.Package, name string, under types.Type) *types.Named {
		obj := types.NewTypeName(token.NoPos, p, name, nil)
		n := types.NewNamed(obj, under, nil)
		p.Scope().Insert(obj)
		return n
	}
	w.L = named(w.self, "L", types.NewStruct([]*types.Var{types.NewField(token.NoPos, w.self, "N", types.Typ[types.Int], false)}, nil))
	w.X = named(w.q1, "X", types.Typ[types.Int])
	w.Y = named(w.q2, "Y", types.Typ[types.String])
	named(w.q3, "Z", types.Typ[types.Int])
	// type G[T any] struct{ V T }
	gObj := types.NewTypeName(token.NoPos, w.q1, "G", nil)
	w.G = types.NewNamed(gObj, nil, nil)
	tpObj := types.NewTypeName(token.NoPos, w.q1, "T", nil)
	tp := types.NewTypeParam(tpObj, types.NewInterfaceType(nil, nil))
	w.G.SetTypeParams([]*types.TypeParam{tp})
	w.G.SetUnderlying(types.NewStruct([]*types.Var{types.NewField(token.NoPos, w.q1, "V", tp, false)}, nil))
	w.q1.Scope().Insert(gObj)
	for _, p := range []*types.Package{w.self, w.q1, w.q2, w.q3} {
		p.MarkComplete()
	}
	return w
}

func (w *vTyWorld) inst(arg types.Type) types.Type {
	t, err := types.Instantiate(nil, w.G, []types.Type{arg}, false)
	if err != nil {
		panic(err)
	}
	return t
}

const vNumLeaves = 14

// vLeaf: the k-th leaf type of the grammar.
func (w *vTyWorld) vLeaf(k int) types.Type {
	switch k {
	case 0:
		return types.Typ[types.Int]
	case 1:
		return types.Typ[types.String]
	case 2:
		return types.Universe.Lookup("byte").Type()
	case 3:
		return types.Typ[types.Float64]
	case 4:
		return types.Universe.Lookup("error").Type()
	case 5:
		return types.Universe.Lookup("any").Type()
	case 6:
		return types.NewInterfaceType(nil, nil)
	case 7:
		return w.L
	case 8:
		return w.X
	case 9:
		return w.Y
	case 10:
		return w.inst(types.Typ[types.Int])
	case 11:
		return w.inst(w.Y)
	case 12:
		return w.inst(w.L)
	default:
		return types.Universe.Lookup("rune").Type()
	}
}

const vNumCtors = 9

// vBuild: a type of the given depth; every constructor and leaf is a case
// split. tagLen: length of the symbolic struct tag.
func (w *vTyWorld) vBuild(depth, tagLen int) types.Type {
	if depth == 0 {
		return w.vLeaf(verifsym.IntRange(0, vNumLeaves-1))
	}
	c := verifsym.IntRange(0, vNumCtors-1)
	switch c {
	case 0:
		return types.NewPointer(w.vBuild(depth-1, tagLen))
	case 1:
		return types.NewSlice(w.vBuild(depth-1, tagLen))
	case 2:
		return types.NewArray(w.vBuild(depth-1, tagLen), 3)
	case 3:
		return types.NewChan(types.SendRecv, w.vBuild(depth-1, tagLen))
	case 4:
		return types.NewMap(types.Typ[types.String], w.vBuild(depth-1, tagLen))
	case 5:
		return types.NewMap(w.X, w.vBuild(depth-1, tagLen))
	case 6:
		// struct with a tagged field and a plain field
		tag := vTag(tagLen)
		return types.NewStruct([]*types.Var{
			types.NewField(token.NoPos, w.self, "A", w.vBuild(depth-1, tagLen), false),
			types.NewField(token.NoPos, w.self, "B", types.Typ[types.Bool], false),
		}, []string{tag, ""})
	case 7:
		// struct with an embedded named field (by value or by pointer) and a field
		var emb types.Type = w.Y
		name := "Y"
		switch verifsym.IntRange(0, 2) {
		case 1:
			emb, name = w.L, "L"
		case 2:
			emb, name = types.NewPointer(w.X), "X"
		}
		return types.NewStruct([]*types.Var{
			types.NewField(token.NoPos, w.self, name, emb, true),
			types.NewField(token.NoPos, w.self, "C", w.vBuild(depth-1, tagLen), false),
		}, nil)
	default:
		return w.vBuild(depth-1, tagLen)
	}
}

func vTag(n int) string {
	b := verifsym.Bytes(n)
	for i := range b {
		// printable ASCII without the backquote (the text is rendered as a raw string)
		verifsym.Assume(verifsym.And(verifsym.And(b[i] >= 0x20, b[i] <= 0x7e), b[i] != '`'))
	}
	return string(b)
}

// ---- reference rendering as tokens

const vSEP = "\x00SEP"

func vTyTokens(t types.Type, target *types.Package, qual func(*types.Package) string) []string {
	switch x := t.(type) {
	case *types.Alias:
		obj := x.Obj()
		if obj.Pkg() == nil {
			return vTyTokens(x.Rhs(), target, qual) // any
		}
		// a declared alias: its (qualified) name denotes the type
		if obj.Pkg() == target {
			return []string{obj.Name()}
		}
		return []string{qual(obj.Pkg()), ".", obj.Name()}
	case *types.Basic:
		return []string{vNormTok(x.Name())}
	case *types.Named:
		obj := x.Obj()
		var out []string
		if obj.Pkg() == nil {
			out = []string{obj.Name()}
		} else if obj.Pkg() == target {
			out = []string{obj.Name()}
		} else {
			out = []string{qual(obj.Pkg()), ".", obj.Name()}
		}
		if args := x.TypeArgs(); args != nil && args.Len() > 0 {
			out = append(out, "[")
			for i := 0; i < args.Len(); i++ {
				if i > 0 {
					out = append(out, ",")
				}
				out = append(out, vTyTokens(args.At(i), target, qual)...)
			}
			out = append(out, "]")
		}
		return out
	case *types.Pointer:
		return append([]string{"*"}, vTyTokens(x.Elem(), target, qual)...)
	case *types.Slice:
		return append([]string{"[", "]"}, vTyTokens(x.Elem(), target, qual)...)
	case *types.Array:
		return append([]string{"[", vItoa(int(x.Len())), "]"}, vTyTokens(x.Elem(), target, qual)...)
	case *types.Chan:
		return append([]string{"chan"}, vTyTokens(x.Elem(), target, qual)...)
	case *types.Map:
		out := append([]string{"map", "["}, vTyTokens(x.Key(), target, qual)...)
		out = append(out, "]")
		return append(out, vTyTokens(x.Elem(), target, qual)...)
	case *types.Struct:
		out := []string{"struct", "{"}
		for i := 0; i < x.NumFields(); i++ {
			if i > 0 {
				out = append(out, vSEP)
			}
			f := x.Field(i)
			if !f.Embedded() {
				out = append(out, f.Name())
			}
			out = append(out, vTyTokens(f.Type(), target, qual)...)
			if tag := x.Tag(i); tag != "" {
				out = append(out, "`"+tag+"`")
			}
		}
		return append(out, "}")
	case *types.Interface:
		if x.NumMethods() == 0 && x.NumEmbeddeds() == 0 {
			return []string{"any"}
		}
	}
	panic("harness: type outside the grammar")
}

func vItoa(n int) string {
	if n == 0 {
		return "0"
	}
	s := ""
	for n > 0 {
		s = string(rune('0'+n%10)) + s
		n /= 10
	}
	return s
}

func vNormTok(s string) string {
	switch s {
	case "byte":
		return "uint8"
	case "rune":
		return "int32"
	}
	return s
}

func vIsPunct(c byte) bool {
	switch c {
	case '*', '[', ']', '{', '}', ',', '.', '(', ')':
		return true
	}
	return false
}

// vTokenise splits a rendered type expression into tokens, ignoring layout:
// blanks separate, newline and ';' are field separators (collapsed, and
// dropped next to a brace), a raw string is one token, `interface{}` is `any`.
func vTokenise(s string) []string {
	var raw []string
	i := 0
	for i < len(s) {
		c := s[i]
		switch {
		case c == ' ' || c == '\t' || c == '\r':
			i++
		case c == '\n' || c == ';':
			raw = append(raw, vSEP)
			i++
		case c == '`':
			j := i + 1
			for j < len(s) && s[j] != '`' {
				j++
			}
			if j < len(s) {
				j++
			}
			raw = append(raw, s[i:j])
			i = j
		case c == '"':
			panic("harness: cannot judge an interpreted string literal in a type expression")
		case vIsPunct(c):
			raw = append(raw, s[i:i+1])
			i++
		default:
			j := i
			for j < len(s) {
				d := s[j]
				if d == ' ' || d == '\t' || d == '\r' || d == '\n' || d == ';' || d == '`' || d == '"' || vIsPunct(d) {
					break
				}
				j++
			}
			raw = append(raw, vNormTok(s[i:j]))
			i = j
		}
	}
	var out []string
	for k := 0; k < len(raw); k++ {
		t := raw[k]
		if t == vSEP {
			if len(out) == 0 || out[len(out)-1] == vSEP || out[len(out)-1] == "{" {
				continue
			}
			// drop separators before a closing brace
			n := k + 1
			for n < len(raw) && raw[n] == vSEP {
				n++
			}
			if n < len(raw) && raw[n] == "}" {
				continue
			}
			if n == len(raw) {
				continue
			}
		}
		if t == "}" && len(out) >= 2 && out[len(out)-1] == "{" && out[len(out)-2] == "interface" {
			out = out[:len(out)-2]
			t = "any"
		}
		out = append(out, t)
	}
	return out
}

func vTokensEqual(a, b []string) bool {
	if len(a) != len(b) {
		return false
	}
	ok := true
	for i := range a {
		ok = verifsym.And(ok, a[i] == b[i])
	}
	return ok
}

// vTyNativeOK: the statement's own oracle. The registered imports are put in
// the target package's scope and the text is type-checked there.
func vTyNativeOK(w *vTyWorld, text string, t types.Type, target *types.Package, imports map[string]string) bool {
	for path, name := range imports {
		p := w.byPath[path]
		if p == nil || name == "" {
			return false
		}
		if alt := target.Scope().Insert(types.NewPkgName(token.NoPos, target, name, p)); alt != nil {
			// already there from an earlier judgement of the same rendering context?
			if pn, ok := alt.(*types.PkgName); !ok || pn.Imported() != p {
				return false
			}
		}
	}
	tv, err := types.Eval(token.NewFileSet(), target, token.NoPos, text)
	if err != nil || !tv.IsType() {
		return false
	}
	return types.Identical(tv.Type, t)
}

func vRenderIn(d *internal.Dumper, s Snippet) string {
	out := ""
	for code := range s.Frag(internal.DumperContext.Inject(context.Background(), d)) {
		out += code
	}
	return out
}

// vPredeclaredTypes: the predeclared type names a rendered expression may use.
var vPredeclaredTypes = []string{
	"bool", "byte", "complex64", "complex128", "error", "float32", "float64",
	"int", "int8", "int16", "int32", "int64", "rune", "string",
	"uint", "uint8", "uint16", "uint32", "uint64", "uintptr", "any",
}

// vShadowed: does a registered import name hide a predeclared type name that the
// expression uses (then the expression cannot denote the type, whatever it says).
func vShadowed(text []string, imports map[string]string, paths []string) bool {
	sh := false
	for _, p := range paths {
		n, ok := imports[p]
		if !ok {
			continue
		}
		for _, tok := range text {
			for _, pre := range vPredeclaredTypes {
				if tok == pre {
					sh = verifsym.Or(sh, n == pre)
				}
			}
		}
	}
	return sh
}

// vRawIdents: the identifier-like words of the text that are not part of a
// qualified identifier, not normalised.
func vRawIdents(s string) []string {
	var out []string
	i := 0
	for i < len(s) {
		c := s[i]
		if c == '`' {
			i++
			for i < len(s) && s[i] != '`' {
				i++
			}
			i++
			continue
		}
		if !vIsName(c) {
			i++
			continue
		}
		j := i
		for j < len(s) && vIsName(s[j]) {
			j++
		}
		// a package qualifier (x.) or a selected name (.x) is not a use of a predeclared name
		if !(j < len(s) && s[j] == '.') && !(i > 0 && s[i-1] == '.') {
			out = append(out, s[i:j])
		}
		i = j
	}
	return out
}

type vTyJudge struct {
	w      *vTyWorld
	target *types.Package
	tr     namer.ImportTracker
	d      *internal.Dumper
}

func vNewJudge(w *vTyWorld, mode int) *vTyJudge {
	j := &vTyJudge{w: w, target: w.self}
	if mode == 1 {
		j.target = w.q1
	}
	j.tr = namer.NewDefaultImportTracker()
	if mode == 2 {
		j.tr.AddType(gengotypes.Ref(w.q3.Path(), "Z"))
	}
	j.d = internal.NewDumper(namer.NewRawNamer(j.target.Path(), j.tr))
	return j
}

// check: text must denote t in the target package with the registered imports.
func (j *vTyJudge) check(text string, t types.Type) {
	w := j.w
	imports := map[string]string{}
	for path, name := range j.tr.Imports() {
		imports[path] = name
	}
	missing := false
	qual := func(p *types.Package) string {
		n, ok := imports[p.Path()]
		if !ok {
			missing = true
		}
		return n
	}
	want := vTyTokens(t, j.target, qual)
	verifsym.Assert(!missing, "a foreign package referenced by the type is not among the registered imports")
	got := vTokenise(text)
	paths := []string{w.q1.Path(), w.q2.Path(), w.q3.Path(), w.self.Path()}
	refOK := verifsym.And(vTokensEqual(got, want), verifsym.Not(vShadowed(vRawIdents(text), imports, paths)))

	ok := refOK
	if !verifsym.Symbolic() {
		ok = vTyNativeOK(w, text, t, j.target, imports)
		if ok != refOK {
			panic("harness: reference judgement and go/types disagree on " + text)
		}
	}
	verifsym.Assert(ok, "the rendered text does not denote the type it was rendered from (target package, registered imports)")
}

// Verif_C11_TypeLit(depth, seg, tagLen, mode): mode 0 renders into self, 1 into
// q1 (X and G local, L foreign), 2 into self with a tracker that has already
// imported a third package wanting the same name as q1, 3 into self with q2
// living under the module's vendor directory, 4 into self with q1 and q2 at
// import paths whose last element contains a dot (`<s>.v3`). Rendered through ID and through
// %T; both texts are judged.
func Verif_C11_TypeLit(depth, seg, tagLen, mode int) {
	vVendoredQ2 = mode == 3
	vDottedPaths = mode == 4
	w := vNewTyWorld(vSeg(seg), vSeg(seg))
	vVendoredQ2 = false
	vDottedPaths = false
	t := w.vBuild(depth, tagLen)
	j := vNewJudge(w, mode)
	text := vRenderIn(j.d, ID(t))
	verifsym.Observe("text", text)
	j.check(text, t)
	// the same through %T
	text2 := vRenderIn(j.d, Sprintf("%T", t))
	if text2 != text {
		verifsym.Observe("text%T", text2)
		j.check(text2, t)
	}
	// the same type rendered again gives the same text (the namer memoises)
	verifsym.Assert(vRenderIn(j.d, ID(t)) == text, "rendering the same type twice gives different text")
	verifsym.Reach("end")
}

// Verif_C11_ShadowNames(word, depth, mode): as TypeLit, but the last segment of
// q1's path is one of the predeclared type names with one position replaced by
// an arbitrary lower-case letter (case split over the position), q2's is one
// arbitrary letter: import names that collide with predeclared identifiers.
func Verif_C11_ShadowNames(word, depth, mode int) {
	words := []string{"int", "any", "string", "error", "bool", "byte", "rune", "uint8", "float64"}
	verifsym.Assume(word >= 0 && word < len(words))
	b := []byte(words[word])
	pos := verifsym.IntRange(0, len(b)-1)
	c := verifsym.Byte()
	verifsym.Assume(verifsym.And(c >= 'a', c <= 'z'))
	b[pos] = c
	w := vNewTyWorld(string(b), vSeg(1))
	t := w.vBuild(depth, 0)
	j := vNewJudge(w, mode)
	text := vRenderIn(j.d, ID(t))
	verifsym.Observe("text", text)
	j.check(text, t)
	verifsym.Reach("end")
}

// Verif_C11_Dispatch(seg, mode): the forms snippet.ID accepts for a named type
// (types.Type, its *types.TypeName, the "path.Name" string, %T in Sprintf) and an
// alias declared in self all render an expression that denotes the type.
func Verif_C11_Dispatch(seg, mode int) {
	w := vNewTyWorld(vSeg(seg), vSeg(seg))
	var n *types.Named
	switch verifsym.IntRange(0, 2) {
	case 0:
		n = w.L
	case 1:
		n = w.X
	default:
		n = w.Y
	}
	j := vNewJudge(w, mode)
	form := verifsym.IntRange(0, 4)
	var text string
	var t types.Type = n
	switch form {
	case 0:
		text = vRenderIn(j.d, ID(types.Type(n)))
	case 1:
		text = vRenderIn(j.d, ID(n.Obj()))
	case 2:
		text = vRenderIn(j.d, ID(n.Obj().Pkg().Path()+"."+n.Obj().Name()))
	case 3:
		text = vRenderIn(j.d, Sprintf("%T", types.Type(n)))
	default:
		// type A = <n>, declared in self
		aObj := types.NewTypeName(token.NoPos, w.self, "A", nil)
		a := types.NewAlias(aObj, n)
		w.self.Scope().Insert(aObj)
		t = a
		text = vRenderIn(j.d, ID(a))
	}
	verifsym.Observe("text", text)
	j.check(text, t)
	verifsym.Reach("end")
}
