package snippet

import (
	"context"

	"github.com/octohelm/gengo/internal/verifsym"
)

// ---------------------------------------------------------------- C09

// vRender renders a snippet the way the real writer does (genfile.go
// snippetWriter.Render): nothing for a nil / IsNil snippet, otherwise the
// concatenation of its fragments.
func vRender(s Snippet) string {
	out := ""
	if s == nil || s.IsNil() {
		return out
	}
	for code := range s.Frag(context.Background()) {
		out += code
	}
	return out
}

func vIsName(c byte) bool {
	return (c >= 'A' && c <= 'Z') || (c >= 'a' && c <= 'z') || (c >= '0' && c <= '9') || c == '_'
}

// vTemplateArgs: the fixed argument binding used by the template harness.
//
//	a  -> literal "<A>"
//	b  -> empty block (IsNil)
//	c  -> literal that looks like template syntax: "@a'%v"
//	ab -> nested template "[@a'@b]" bound to the same a and b
//	d  -> Sprintf snippet "%v-%v" of two blocks
func vTemplateArgs() []TArg {
	a := Block("<A>")
	b := Block("")
	return []TArg{
		Arg("a", a),
		Arg("b", b),
		Arg("c", Block("@a'%v")),
		Arg("ab", T("[@a'@b]", Arg("a", a), Arg("b", b))),
		// a Sprintf snippet: a placeholder used twice renders the same value twice
		Arg("d", Sprintf("%v-%v", Block("1"), Block("2"))),
	}
}

// vRefArg: what each bound name renders to (ok=false: unbound).
func vRefArg(name string) (string, bool) {
	switch name {
	case "a":
		return "<A>", true
	case "b":
		return "", true
	case "c":
		return "@a'%v", true
	case "ab":
		return "[<A>]", true
	case "d":
		return "1-2", true
	}
	return "", false
}

// vRefTemplate is the independent reference renderer of C09's statement.
// Domain (assumed by the caller): every '@' is followed by a name byte.
func vRefTemplate(format string) (out string, panics bool) {
	i := 0
	for i < len(format) && format[i] == '\n' {
		i++
	}
	for i < len(format) {
		c := format[i]
		if c != '@' {
			out += string([]byte{c})
			i++
			continue
		}
		j := i + 1
		for j < len(format) && vIsName(format[j]) {
			j++
		}
		v, ok := vRefArg(format[i+1 : j])
		if !ok {
			return "", true
		}
		out += v
		i = j
		if i < len(format) && format[i] == '\'' {
			i++ // one apostrophe directly after a placeholder is a delimiter
		}
	}
	return out, false
}

// Verif_C09_Template: for every ASCII format of n bytes (0x01..0x7F) in which
// every '@' starts a non-empty name, T(format, args) renders exactly what the
// reference renderer says, and panics exactly when a name is unbound.
func Verif_C09_Template(n int) {
	b := verifsym.Bytes(n)
	for i := range b {
		verifsym.Assume(b[i] >= 1)
		verifsym.Assume(b[i] < 0x80)
	}
	for i := range b {
		if b[i] == '@' {
			verifsym.Assume(i+1 < n)
			if i+1 < n {
				verifsym.Assume(vIsName(b[i+1]))
			}
		}
	}
	format := string(b)
	want, wantPanic := vRefTemplate(format)

	// known-finding predicates would be registered here (none open)

	got := ""
	panicked := verifsym.Panics(func() {
		got = vRender(T(format, vTemplateArgs()...))
	})
	verifsym.Assert(panicked == wantPanic, "panics iff a placeholder has no bound argument")
	if !panicked && !wantPanic {
		verifsym.Assert(got == want, "rendered text differs from faithful substitution")
	}
	verifsym.Observe("panicked", panicked)
	verifsym.Observe("got", got)
	verifsym.Reach("end")
}

// Verif_C09_TemplateUTF8: non-ASCII text passes through unchanged (one
// symbolic 2- or 3-byte rune between ASCII text and a placeholder).
func Verif_C09_TemplateUTF8(w int) {
	r := verifsym.Bytes(w)
	s := string(r)
	valid := false
	for i, c := range s {
		if i == 0 && c != 0xFFFD && len(string(c)) == w {
			valid = true
		}
	}
	verifsym.Assume(valid)
	verifsym.Assume(s != "\ufeff") // a leading BOM is outside the domain
	format := s + "x@a'" + s + "@b" + s
	got := vRender(T(format, vTemplateArgs()...))
	verifsym.Assert(got == s+"x<A>"+s+s, "non-ASCII text not preserved")
	verifsym.Observe("got", got)
	verifsym.Reach("end")
}

// vRefSprintf is the reference for Sprintf with k snippet arguments rendering
// to "<0>", "<1>", ...
func vRefSprintf(format string, k int) (out string, panics bool) {
	arg := 0
	for i := 0; i < len(format); i++ {
		c := format[i]
		if c != '%' {
			out += string([]byte{c})
			continue
		}
		i++
		if i >= len(format) {
			return "", true // '%' at the end: no verb
		}
		switch format[i] {
		case 'v', 'T':
			if arg >= k {
				return "", true // missing argument
			}
			out += "<" + string([]byte{'0' + byte(arg)}) + ">"
			arg++
		case '%':
			out += "%"
		default:
			return "", true // any other verb
		}
	}
	return out, false
}

// Verif_C09_Sprintf: every ASCII format of n bytes, k snippet arguments.
func Verif_C09_Sprintf(n, k int) {
	b := verifsym.Bytes(n)
	for i := range b {
		verifsym.Assume(b[i] >= 1)
		verifsym.Assume(b[i] < 0x80)
	}
	format := string(b)
	args := make([]any, k)
	for i := range args {
		args[i] = Block("<" + string([]byte{'0' + byte(i)}) + ">")
	}
	want, wantPanic := vRefSprintf(format, k)
	got, again := "", ""
	panicked := verifsym.Panics(func() {
		sn := Sprintf(format, args...)
		got = vRender(sn)
		// a snippet is a value: rendering it a second time gives the same text
		again = vRender(sn)
	})
	verifsym.Assert(panicked == wantPanic, "Sprintf panics iff an argument is missing or the verb is not %v %T %%")
	if !panicked && !wantPanic {
		verifsym.Assert(got == want, "Sprintf output differs from the reference")
		verifsym.Assert(again == want, "rendering the same Sprintf snippet a second time gives other text")
	}
	verifsym.Observe("panicked", panicked)
	verifsym.Observe("got", got)
	verifsym.Reach("end")
}

// Verif_C09_Comment: every text of n bytes -> each line as "// line", joined by "\n".
func Verif_C09_Comment(n int) {
	v := verifsym.String(n)
	want := ""
	if n > 0 {
		want = "// "
		for i := 0; i < len(v); i++ {
			if v[i] == '\n' {
				want += "\n// "
			} else {
				want += string([]byte{v[i]})
			}
		}
	}
	got := vRender(Comment(v))
	verifsym.Assert(got == want, "Comment does not render each line as a // line")
	verifsym.Observe("got", got)
	verifsym.Reach("end")
}

// Verif_C09_GoDirective: directive of d bytes, two arguments of a1 and a2 bytes.
func Verif_C09_GoDirective(d, a1, a2 int) {
	dir, x, y := verifsym.String(d), verifsym.String(a1), verifsym.String(a2)
	want := ""
	if d > 0 {
		want = "//go:" + dir
		if a1 > 0 {
			want += " " + x
		}
		if a2 > 0 {
			want += " " + y
		}
	}
	got := vRender(GoDirective(dir, x, y))
	verifsym.Assert(got == want, "GoDirective output differs")
	verifsym.Observe("got", got)
	verifsym.Reach("end")
}

// Verif_C09_Snippets: three parts, each either nil-like (empty block) or a
// one-byte block, chosen symbolically: output is the concatenation in order;
// Fragments() of an IsNil snippet yields nothing.
func Verif_C09_Snippets() {
	var parts []Snippet
	want := ""
	for i := 0; i < 3; i++ {
		if verifsym.Bool() {
			c := verifsym.Byte()
			parts = append(parts, Block(string([]byte{c})))
			want += string([]byte{c})
		} else {
			parts = append(parts, Block(""))
		}
	}
	seq := Snippets(func(yield func(Snippet) bool) {
		for _, p := range parts {
			if !yield(p) {
				return
			}
		}
	})
	got := vRender(seq)
	verifsym.Assert(got == want, "Snippets does not concatenate the non-nil parts in order")
	viaFragments := ""
	for _, p := range parts {
		for code := range Fragments(context.Background(), p) {
			viaFragments += code
		}
	}
	verifsym.Assert(viaFragments == want, "Fragments does not skip IsNil snippets")
	verifsym.Observe("got", got)
	verifsym.Reach("end")
}

// vAssumeTemplateDomain: every '@' starts a non-empty name.
func vAssumeTemplateDomain(b []byte) {
	n := len(b)
	for i := range b {
		if b[i] == '@' {
			verifsym.Assume(i+1 < n)
			if i+1 < n {
				verifsym.Assume(vIsName(b[i+1]))
			}
		}
	}
}

// Verif_C09_TemplateLong: formats beyond the exhaustive bound, sparsely
// symbolic: the first `fill` bytes of a concrete template text with several
// placeholders (incl. an eight-character name region and adjacent
// placeholders), in which two bytes at case-split positions are arbitrary
// ASCII bytes (0x01..0x7F, every '@' still starting a name): same assertions
// as Template.
func Verif_C09_TemplateLong(fill int) {
	text := []byte("\n\nfunc @a'Name(@ab@b x) { return @c' + @a@a'y_@ab }\n")
	verifsym.Assume(fill <= len(text))
	b := append([]byte(nil), text[:fill]...)
	i := verifsym.IntRange(0, fill-2)
	j := verifsym.IntRange(i+1, fill-1)
	b[i], b[j] = verifsym.Byte(), verifsym.Byte()
	for _, p := range []int{i, j} {
		verifsym.Assume(b[p] >= 1)
		verifsym.Assume(b[p] < 0x80)
	}
	vAssumeTemplateDomain(b)
	format := string(b)
	want, wantPanic := vRefTemplate(format)
	got := ""
	panicked := verifsym.Panics(func() {
		got = vRender(T(format, vTemplateArgs()...))
	})
	verifsym.Assert(panicked == wantPanic, "panics iff a placeholder has no bound argument")
	if !panicked && !wantPanic {
		verifsym.Assert(got == want, "rendered text differs from faithful substitution")
	}
	verifsym.Observe("got", got)
	verifsym.Reach("end")
}

// Verif_C09_SprintfLong: a long concrete format with k arguments (k up to 6) and
// two arbitrary ASCII bytes at case-split positions.
func Verif_C09_SprintfLong(fill, k int) {
	text := []byte("a=%v, b=%T; 100%% of %v%v and %T%v.")
	verifsym.Assume(fill <= len(text))
	b := append([]byte(nil), text[:fill]...)
	i := verifsym.IntRange(0, fill-2)
	j := verifsym.IntRange(i+1, fill-1)
	b[i], b[j] = verifsym.Byte(), verifsym.Byte()
	for _, p := range []int{i, j} {
		verifsym.Assume(b[p] >= 1)
		verifsym.Assume(b[p] < 0x80)
	}
	format := string(b)
	args := make([]any, k)
	for x := range args {
		args[x] = Block("<" + string([]byte{'0' + byte(x)}) + ">")
	}
	want, wantPanic := vRefSprintf(format, k)
	got := ""
	panicked := verifsym.Panics(func() {
		got = vRender(Sprintf(format, args...))
	})
	verifsym.Assert(panicked == wantPanic, "Sprintf panics iff an argument is missing or the verb is not %v %T %%")
	if !panicked && !wantPanic {
		verifsym.Assert(got == want, "Sprintf output differs from the reference")
	}
	verifsym.Observe("got", got)
	verifsym.Reach("end")
}

// Verif_C09_LongName: placeholder names beyond the exhaustive bound: a name of
// n characters (prefix of "DeepCopyIntoMethodNameOfType_01") is bound to "<L>",
// the same name with its last character replaced is bound to "<M>"; the format
// is "x@" + name' + "y@" + lookalike + ".z" in which one byte of the first name
// (case-split position) is an arbitrary name character. Renders exactly what
// the reference says (the right one of the two arguments, or a panic for an
// unbound name).
func Verif_C09_LongName(n int) {
	full := "DeepCopyIntoMethodNameOfType_01"
	verifsym.Assume(n >= 2 && n <= len(full))
	name := full[:n]
	look := name[:n-1] + "Q"
	nb := []byte(name)
	c := verifsym.Byte()
	verifsym.Assume(vIsName(c))
	nb[verifsym.IntRange(0, n-1)] = c
	used := string(nb)
	format := "x@" + used + "'y@" + look + ".z"
	want, wantPanic := "", false
	switch used {
	case name:
		want = "x<L>y<M>.z"
	case look:
		want = "x<M>y<M>.z"
	default:
		wantPanic = true
	}
	got := ""
	panicked := verifsym.Panics(func() {
		got = vRender(T(format, Arg(name, Block("<L>")), Arg(look, Block("<M>"))))
	})
	verifsym.Assert(panicked == wantPanic, "panics iff a placeholder has no bound argument")
	if !panicked && !wantPanic {
		verifsym.Assert(got == want, "a long placeholder name is not matched exactly")
	}
	verifsym.Observe("got", got)
	verifsym.Reach("end")
}
