package internal

import (
	"testing"

	"github.com/octohelm/gengo/internal/verifsym"
)

func TestVerifReplay(t *testing.T) {
	verifsym.RunReplay(t, map[string]any{
		"Verif_C10_Value": Verif_C10_Value,
		"Verif_C10_Top":   Verif_C10_Top,
	})
}
