package internal

import (
	"go/ast"
	"go/constant"
	"go/parser"
	"go/token"
	"go/types"
	"image"
	"sort"
	"strconv"
	"strings"
	"unicode/utf8"

	pta "github.com/octohelm/gengo/internal/verifa/pt"
	ptb "github.com/octohelm/gengo/internal/verifb/pt"
	"github.com/octohelm/gengo/internal/verifsym"
	"github.com/octohelm/gengo/pkg/namer"
)

// ---------------------------------------------------------------- C10 (value literals)
//
// Dumper.ValueLit walks reflect.Values. Under the engine reflect is a model
// that projects the interpreter's typed values (engine/interp/reflectmodel.go);
// natively it is the real reflect. The oracle of the statement - "compiled in a
// file with the imports it registered, the expression has the value's type and
// evaluates to a deeply equal value" - is executed on both sides by the real
// go/parser and go/types checker (interpreted under the engine): the rendered
// text is parsed and type-checked in a package that declares the same types as
// this file, its type must be identical to the value's type, and a small
// evaluator over the checked syntax tree (constants come from the checker)
// turns it into a canonical form that must equal the canonical form of the
// value that was rendered (zero-valued struct fields omitted, nil and empty
// slices / maps identified, map entries sorted).

type NInt int
type NStr string
type NBool bool

type Inner struct {
	A int
	B string
	c int
}

// Rec: a recursive type - values of any nesting depth from one type
type Rec struct {
	P *Rec
	L []Rec
	M map[string]Rec
	V int
}

type Outer struct {
	B      bool
	I      int
	I8     int8
	U      uint
	U64    uint64
	R      rune
	S      string
	NI     NInt
	NS     NStr
	NB     NBool
	PI     *int
	PS     *string
	PN     *NInt
	PB     *bool
	PT     *Inner
	In     Inner
	L      []string
	LI     []Inner
	A      [2]int
	M      map[string]int
	MI     map[int]string
	MB     map[bool]string
	MN     map[NStr]Inner
	Pt     image.Point
	PP     *image.Point
	LP     []image.Point
	MP     map[string]image.Point
	hidden int
}

// the same declarations for the type checker
const vC10Decls = `package internal

import "image"

type Rec struct {
	P *Rec
	L []Rec
	M map[string]Rec
	V int
}

type NInt int
type NStr string
type NBool bool

type Inner struct {
	A int
	B string
	c int
}

type Outer struct {
	B      bool
	I      int
	I8     int8
	U      uint
	U64    uint64
	R      rune
	S      string
	NI     NInt
	NS     NStr
	NB     NBool
	PI     *int
	PS     *string
	PN     *NInt
	PB     *bool
	PT     *Inner
	In     Inner
	L      []string
	LI     []Inner
	A      [2]int
	M      map[string]int
	MI     map[int]string
	MB     map[bool]string
	MN     map[NStr]Inner
	Pt     image.Point
	PP     *image.Point
	LP     []image.Point
	MP     map[string]image.Point
	hidden int
}
`

// the two same-named packages
const vC10Pt = `package pt

type P struct {
	X int
}
`

// what the checker needs to know about package image
const vC10Image = `package image

type Point struct {
	X, Y int
}
`

const vC10Path = "github.com/octohelm/gengo/pkg/gengo/internal"

const (
	vPtA = "github.com/octohelm/gengo/internal/verifa/pt"
	vPtB = "github.com/octohelm/gengo/internal/verifb/pt"
)

var vInts = []int64{0, 1, -1, 7, 42, -128, 127, 9223372036854775807, -9223372036854775808}

func vInt() int64 { return vInts[verifsym.IntRange(0, len(vInts)-1)] }

func vSmall() int64 { return []int64{0, 1, -1, 127, -128}[verifsym.IntRange(0, 4)] }

// canonical forms
func vcInt(v int64) string   { return strconv.FormatInt(v, 10) }
func vcUint(v uint64) string { return strconv.FormatUint(v, 10) }
func vcStr(s string) string  { return "s" + strconv.Itoa(len(s)) + ":" + s }
func vcBool(b bool) string {
	if b {
		return "true"
	}
	return "false"
}

func vcInner(x Inner) string {
	s := "{"
	if x.A != 0 {
		s += "A=" + vcInt(int64(x.A)) + ";"
	}
	if x.B != "" {
		s += "B=" + vcStr(x.B) + ";"
	}
	return s + "}"
}

func vcRec(x Rec) string {
	s := "{"
	if x.P != nil {
		s += "P=&" + vcRec(*x.P) + ";"
	}
	if len(x.L) > 0 {
		var l []string
		for _, e := range x.L {
			l = append(l, vcRec(e))
		}
		s += "L=" + vcList(l) + ";"
	}
	if len(x.M) > 0 {
		var es []string
		for k, v := range x.M {
			es = append(es, vcStr(k)+"=>"+vcRec(v))
		}
		s += "M=" + vcMap(es) + ";"
	}
	if x.V != 0 {
		s += "V=" + vcInt(int64(x.V)) + ";"
	}
	return s + "}"
}

func vcPoint(x image.Point) string {
	s := "{"
	if x.X != 0 {
		s += "X=" + vcInt(int64(x.X)) + ";"
	}
	if x.Y != 0 {
		s += "Y=" + vcInt(int64(x.Y)) + ";"
	}
	return s + "}"
}

func vcList(items []string) string {
	s := "["
	for _, it := range items {
		s += it + ","
	}
	return s + "]"
}

func vcMap(entries []string) string {
	sort.Strings(entries)
	s := "map["
	for _, e := range entries {
		s += e + ","
	}
	return s + "]"
}

// vIsZeroCanon: canonical forms of values a struct literal may leave out
func vIsZeroCanon(c string) bool {
	switch c {
	case "0", "false", "s0:", "nil", "[]", "map[]", "{}", "[0,0,]":
		return true
	}
	return false
}

func vcOuter(o *Outer) string {
	var fs []string
	add := func(name, c string) {
		if !vIsZeroCanon(c) {
			fs = append(fs, name+"="+c+";")
		}
	}
	ptr := func(isNil bool, c string) string {
		if isNil {
			return "nil"
		}
		return "&" + c
	}
	add("B", vcBool(o.B))
	add("I", vcInt(int64(o.I)))
	add("I8", vcInt(int64(o.I8)))
	add("U", vcUint(uint64(o.U)))
	add("U64", vcUint(o.U64))
	add("R", vcInt(int64(o.R)))
	add("S", vcStr(o.S))
	add("NI", vcInt(int64(o.NI)))
	add("NS", vcStr(string(o.NS)))
	add("NB", vcBool(bool(o.NB)))
	if o.PI != nil {
		add("PI", ptr(false, vcInt(int64(*o.PI))))
	}
	if o.PS != nil {
		add("PS", ptr(false, vcStr(*o.PS)))
	}
	if o.PN != nil {
		add("PN", ptr(false, vcInt(int64(*o.PN))))
	}
	if o.PB != nil {
		add("PB", ptr(false, vcBool(*o.PB)))
	}
	if o.PT != nil {
		add("PT", ptr(false, vcInner(*o.PT)))
	}
	add("In", vcInner(o.In))
	var l []string
	for _, s := range o.L {
		l = append(l, vcStr(s))
	}
	add("L", vcList(l))
	l = nil
	for _, x := range o.LI {
		l = append(l, vcInner(x))
	}
	add("LI", vcList(l))
	add("A", vcList([]string{vcInt(int64(o.A[0])), vcInt(int64(o.A[1]))}))
	var es []string
	for k, v := range o.M {
		es = append(es, vcStr(k)+"=>"+vcInt(int64(v)))
	}
	add("M", vcMap(es))
	es = nil
	for k, v := range o.MI {
		es = append(es, vcInt(int64(k))+"=>"+vcStr(v))
	}
	add("MI", vcMap(es))
	es = nil
	for k, v := range o.MB {
		es = append(es, vcBool(k)+"=>"+vcStr(v))
	}
	add("MB", vcMap(es))
	es = nil
	for k, v := range o.MN {
		es = append(es, vcStr(string(k))+"=>"+vcInner(v))
	}
	add("MN", vcMap(es))
	add("Pt", vcPoint(o.Pt))
	if o.PP != nil {
		add("PP", ptr(false, vcPoint(*o.PP)))
	}
	l = nil
	for _, x := range o.LP {
		l = append(l, vcPoint(x))
	}
	add("LP", vcList(l))
	es = nil
	for k, v := range o.MP {
		es = append(es, vcStr(k)+"=>"+vcPoint(v))
	}
	add("MP", vcMap(es))
	s := "{"
	for _, f := range fs {
		s += f
	}
	return s + "}"
}

// ---- evaluation of the rendered expression

type vEval struct {
	info *types.Info
	bad  string
}

func (e *vEval) fail(why string) string {
	if e.bad == "" {
		e.bad = why
	}
	return "?"
}

func (e *vEval) constCanon(tv types.TypeAndValue) string {
	switch tv.Value.Kind() {
	case constant.Bool:
		return vcBool(constant.BoolVal(tv.Value))
	case constant.String:
		return vcStr(constant.StringVal(tv.Value))
	case constant.Int:
		if b, ok := tv.Type.Underlying().(*types.Basic); ok && b.Info()&types.IsUnsigned != 0 {
			u, exact := constant.Uint64Val(tv.Value)
			if !exact {
				return e.fail("unsigned constant out of range")
			}
			return vcUint(u)
		}
		if i, exact := constant.Int64Val(tv.Value); exact {
			return vcInt(i)
		}
		if u, exact := constant.Uint64Val(tv.Value); exact {
			return vcUint(u)
		}
		return e.fail("integer constant out of range")
	}
	return e.fail("constant of unexpected kind")
}

func (e *vEval) eval(x ast.Expr) string {
	tv, ok := e.info.Types[x]
	if !ok {
		return e.fail("expression without recorded type")
	}
	if tv.Value != nil {
		return e.constCanon(tv)
	}
	if tv.IsNil() {
		return "nil"
	}
	switch x := x.(type) {
	case *ast.ParenExpr:
		return e.eval(x.X)
	case *ast.UnaryExpr:
		if x.Op == token.AND {
			return "&" + e.eval(x.X)
		}
		return e.fail("unexpected unary operator")
	case *ast.CallExpr:
		// func(v T) *T { return &v }(arg): a pointer to a copy of arg
		fl, ok := x.Fun.(*ast.FuncLit)
		if !ok || len(x.Args) != 1 || len(fl.Body.List) != 1 {
			return e.fail("unexpected call")
		}
		ret, ok := fl.Body.List[0].(*ast.ReturnStmt)
		if !ok || len(ret.Results) != 1 {
			return e.fail("unexpected closure body")
		}
		u, ok := ret.Results[0].(*ast.UnaryExpr)
		if !ok || u.Op != token.AND {
			return e.fail("unexpected closure body")
		}
		id, ok := u.X.(*ast.Ident)
		if !ok || len(fl.Type.Params.List) != 1 || len(fl.Type.Params.List[0].Names) != 1 || fl.Type.Params.List[0].Names[0].Name != id.Name {
			return e.fail("unexpected closure body")
		}
		return "&" + e.eval(x.Args[0])
	case *ast.CompositeLit:
		switch u := tv.Type.Underlying().(type) {
		case *types.Struct:
			vals := map[string]string{}
			for _, el := range x.Elts {
				kv, ok := el.(*ast.KeyValueExpr)
				if !ok {
					return e.fail("struct literal with positional fields")
				}
				vals[kv.Key.(*ast.Ident).Name] = e.eval(kv.Value)
			}
			s := "{"
			for i := 0; i < u.NumFields(); i++ {
				if c, ok := vals[u.Field(i).Name()]; ok && !vIsZeroCanon(c) {
					s += u.Field(i).Name() + "=" + c + ";"
				}
			}
			return s + "}"
		case *types.Slice:
			var l []string
			for _, el := range x.Elts {
				l = append(l, e.eval(el))
			}
			return vcList(l)
		case *types.Array:
			l := make([]string, u.Len())
			zero := "0"
			for i := range l {
				l[i] = zero
			}
			for i, el := range x.Elts {
				if i < len(l) {
					l[i] = e.eval(el)
				}
			}
			return vcList(l)
		case *types.Map:
			var es []string
			for _, el := range x.Elts {
				kv, ok := el.(*ast.KeyValueExpr)
				if !ok {
					return e.fail("map literal without keys")
				}
				es = append(es, e.eval(kv.Key)+"=>"+e.eval(kv.Value))
			}
			return vcMap(es)
		}
	}
	return e.fail("unexpected expression form")
}

type vImp map[string]*types.Package

func (m vImp) Import(path string) (*types.Package, error) {
	if p, ok := m[path]; ok {
		return p, nil
	}
	return nil, &vImpErr{path}
}

type vImpErr struct{ path string }

func (e *vImpErr) Error() string { return "no package " + e.path }

// vC10Judge: text must compile - in a file that imports exactly what the
// dumper's tracker registered - to the type named typeExpr and evaluate to want.
func vC10Judge(tr namer.ImportTracker, text string, typeExpr string, want string) {
	verifsym.Provide("real:go/parser.ParseFile", true)
	fset := token.NewFileSet()
	// file 1: the type declarations; file 2: the registered imports and the
	// rendered expression as initialiser of a variable of the value's type
	// ("compiled in a file with the imports it registered ... has the value's type")
	src := "package internal\n\n"
	var paths []string
	imports := tr.Imports()
	for path := range imports {
		paths = append(paths, path)
	}
	sort.Strings(paths)
	verifsym.Observe("registered imports", paths)
	for _, path := range paths {
		src += "import " + imports[path] + " " + strconv.Quote(path) + "\n"
	}
	// @A@ / @B@ in the type expression: the names the tracker bound the two pt packages to
	for ph, path := range map[string]string{"@A@": vPtA, "@B@": vPtB} {
		name, ok := imports[path]
		if !ok {
			name = "NOT_REGISTERED"
		}
		typeExpr = strings.ReplaceAll(typeExpr, ph, name)
	}
	src += "\nvar X " + typeExpr + " = " + text + "\n"
	verifsym.MapOrderBaseline(true)
	fimg, err0 := parser.ParseFile(fset, "image.go", vC10Image, 0)
	fdecl, err1 := parser.ParseFile(fset, "decls.go", vC10Decls, 0)
	f, err := parser.ParseFile(fset, "v.go", src, 0)
	verifsym.MapOrderBaseline(false)
	if err0 != nil || err1 != nil {
		panic("harness: declarations do not parse")
	}
	verifsym.Assert(err == nil, "the rendered value literal does not parse")
	if err != nil {
		return
	}
	verifsym.MapOrderBaseline(true)
	img, err0 := (&types.Config{}).Check("image", fset, []*ast.File{fimg}, nil)
	if err0 != nil {
		panic("harness: package image does not type-check")
	}
	imp := vImp{"image": img}
	for _, path := range []string{vPtA, vPtB} {
		fp, errp := parser.ParseFile(fset, "pt.go", vC10Pt, 0)
		if errp != nil {
			panic("harness: package pt does not parse")
		}
		tp, errp := (&types.Config{}).Check(path, fset, []*ast.File{fp}, nil)
		if errp != nil {
			panic("harness: package pt does not type-check")
		}
		imp[path] = tp
	}
	info := &types.Info{Types: map[ast.Expr]types.TypeAndValue{}, Defs: map[*ast.Ident]types.Object{}, Uses: map[*ast.Ident]types.Object{}}
	conf := types.Config{Importer: imp}
	pkg, err := conf.Check(vC10Path, fset, []*ast.File{fdecl, f}, info)
	verifsym.MapOrderBaseline(false)
	verifsym.Assert(err == nil, "the rendered value literal does not type-check as a value of its type in a file with the registered imports")
	if err != nil {
		return
	}
	var init ast.Expr
	for _, d := range f.Decls {
		if gd, ok := d.(*ast.GenDecl); ok && gd.Tok == token.VAR {
			init = gd.Specs[0].(*ast.ValueSpec).Values[0]
		}
	}
	xt := pkg.Scope().Lookup("X").Type()
	if tv, ok := info.Types[init]; ok && tv.Value == nil && !tv.IsNil() {
		verifsym.Assert(types.Identical(tv.Type, xt), "the rendered value literal has another type than the value")
	}
	ev := &vEval{info: info}
	got := ev.eval(init)
	verifsym.Assert(ev.bad == "", "the rendered value literal has an unexpected form")
	if ev.bad == "" {
		verifsym.Assert(got == want, "the rendered value literal does not evaluate to the value it was rendered from")
	}
}

func vC10Dumper() (*Dumper, namer.ImportTracker) {
	tr := namer.NewDefaultImportTracker()
	return NewDumper(namer.NewRawNamer(vC10Path, tr)), tr
}

func vSymStr(n int) string { return verifsym.String(n) }

// Verif_C10_Value(group, n): an Outer value whose fields of one group are
// filled symbolically (strings of n arbitrary bytes - quotes, backslashes,
// newlines, non-UTF-8 included -, integers from a table with the extremes,
// booleans, nil / non-nil pointers, nil / empty / filled slices and maps).
func Verif_C10_Value(group, n int) {
	o := &Outer{hidden: 5}
	switch group {
	case 0: // booleans, integers
		o.B = verifsym.Bool()
		o.I = int(vInt())
		o.I8 = int8(vSmall())
	case 1: // unsigned, strings
		o.U64 = []uint64{0, 1, 255, 9223372036854775807}[verifsym.IntRange(0, 3)]
		o.U = uint(o.U64)
		o.S = vSymStr(n)
	case 2: // named scalars
		o.NI = NInt(vInt())
		o.NS = NStr(vSymStr(n))
		o.NB = NBool(verifsym.Bool())
	case 3: // runes
		o.R = []rune{0, 'a', '\'', '\n', '\\', 0x1F600, -1, 0x7f, 0xD800}[verifsym.IntRange(0, 8)]
	case 4: // pointers to scalars
		if verifsym.Bool() {
			v := int(vSmall())
			o.PI = &v
		}
		if verifsym.Bool() {
			v := vSymStr(n)
			o.PS = &v
		}
		if verifsym.Bool() {
			v := verifsym.Bool()
			o.PB = &v
		}
	case 5: // pointers to named scalars and structs
		if verifsym.Bool() {
			v := NInt(vSmall())
			o.PN = &v
		}
		switch verifsym.IntRange(0, 2) {
		case 1:
			o.PT = &Inner{}
		case 2:
			o.PT = &Inner{A: 1, B: vSymStr(n), c: 2}
		}
	case 6: // nested struct, array
		if verifsym.Bool() {
			o.In = Inner{A: int(vSmall()), B: vSymStr(n), c: 9}
		}
		if verifsym.Bool() {
			o.A = [2]int{int(vSmall()), 3}
		}
	case 7: // slices
		switch verifsym.IntRange(0, 3) {
		case 1:
			o.L = []string{}
		case 2:
			o.L = []string{vSymStr(n)}
		case 3:
			o.L = []string{"", vSymStr(n)}
		}
		switch verifsym.IntRange(0, 2) {
		case 1:
			o.LI = []Inner{{}}
		case 2:
			o.LI = []Inner{{A: 1}, {}, {B: "x"}}
		}
	case 8: // maps with string keys
		switch verifsym.IntRange(0, 2) {
		case 1:
			o.M = map[string]int{}
		case 2:
			// one arbitrary key next to a fixed one (two arbitrary keys: group 11, thorough tier)
			k1 := vSymStr(n)
			verifsym.Assume(k1 != "b")
			o.M = map[string]int{k1: 1, "b": 2}
		}
	case 11: // maps with two arbitrary distinct string keys
		switch verifsym.IntRange(0, 1) {
		case 1:
			k1, k2 := vSymStr(n), vSymStr(n)
			verifsym.Assume(k1 != k2)
			o.M = map[string]int{k1: 1, k2: 2}
		}
	case 10: // a struct type from another package: by value, behind a pointer, in a slice, in a map
		if verifsym.Bool() {
			o.Pt = image.Point{X: int(vSmall()), Y: 1}
		}
		switch verifsym.IntRange(0, 2) {
		case 1:
			o.PP = &image.Point{}
		case 2:
			o.PP = &image.Point{X: 2}
		}
		if verifsym.Bool() {
			o.LP = []image.Point{{X: 1, Y: 2}, {}}
		}
		if verifsym.Bool() {
			o.MP = map[string]image.Point{"a": {Y: 3}, "z": {}}
		}
	case 9: // maps with other keys, struct values
		if verifsym.Bool() {
			o.MI = map[int]string{10: "a", 2: "b", -1: "c"}
		}
		if verifsym.Bool() {
			o.MB = map[bool]string{true: "t", false: "f"}
		}
		if verifsym.Bool() {
			k := vSymStr(n)
			verifsym.Assume(k != "k")
			o.MN = map[NStr]Inner{"k": {A: 1}, NStr(k): {}}
		}
	}
	d, tr := vC10Dumper()
	var text string
	panicked := verifsym.Panics(func() { text = d.ValueLit(*o) })
	verifsym.Assert(!panicked, "ValueLit panics on a value of its domain")
	if panicked {
		return
	}
	verifsym.Observe("text", text)
	vC10Judge(tr, text, "Outer", vcOuter(o))
	// deterministic: the same text again, and the same text when every map is
	// walked in insertion order (the explored path may walk them in another order)
	verifsym.Assert(d.ValueLit(*o) == text, "the rendered text of a value is not deterministic (two renderings differ / it depends on the iteration order of a map)")
	verifsym.MapOrderBaseline(true)
	ref := d.ValueLit(*o)
	verifsym.MapOrderBaseline(false)
	verifsym.Assert(ref == text, "the rendered text of a value is not deterministic (two renderings differ / it depends on the iteration order of a map)")
	verifsym.Reach("end")
}

// Verif_C10_Top(kind, n): values that are not struct fields - rendered at top level.
func Verif_C10_Top(kind, n int) {
	d, tr := vC10Dumper()
	var v any
	var typeExpr, want string
	switch kind {
	case 0:
		s := vSymStr(n)
		v, typeExpr, want = s, "string", vcStr(s)
	case 1:
		s := NStr(vSymStr(n))
		v, typeExpr, want = s, "NStr", vcStr(string(s))
	case 2:
		l := []string{vSymStr(n), vSymStr(n)}
		v, typeExpr, want = l, "[]string", vcList([]string{vcStr(l[0]), vcStr(l[1])})
	case 3:
		i := vInt()
		v, typeExpr, want = i, "int64", vcInt(i)
	case 4:
		s := vSymStr(n)
		v, typeExpr, want = &s, "*string", "&"+vcStr(s)
	case 5:
		i := NInt(vSmall())
		v, typeExpr, want = &i, "*NInt", "&"+vcInt(int64(i))
	case 6:
		k := vSymStr(n)
		v, typeExpr, want = map[string][]int{k: {1, 2}, k + "x": nil}, "map[string][]int", vcMap([]string{vcStr(k) + "=>[1,2,]", vcStr(k+"x") + "=>[]"})
	case 7:
		v, typeExpr, want = &Inner{}, "*Inner", "&{}"
	case 8:
		b := verifsym.Bool()
		v, typeExpr, want = b, "bool", vcBool(b)
	case 12: // one arbitrary valid rune of n bytes (n = 2, 3, 4) as a string
		s := vSymStr(n)
		verifsym.Assume(utf8.ValidString(s) && utf8.RuneCountInString(s) == 1)
		v, typeExpr, want = s, "string", vcStr(s)
	case 13: // pointers to composites
		switch verifsym.IntRange(0, 3) {
		case 0:
			b := []byte("ab")
			v, typeExpr, want = &b, "*[]byte", "&[97,98,]"
		case 1:
			l := []int{1}
			v, typeExpr, want = &l, "*[]int", "&[1,]"
		case 2:
			m := map[string]int{"a": 1}
			v, typeExpr, want = &m, "*map[string]int", "&map[s1:a=>1,]"
		default:
			a := [2]int{0, 5}
			v, typeExpr, want = &a, "*[2]int", "&[0,5,]"
		}
	case 14: // maps with array and struct keys whose parts concatenate to the same text
		if verifsym.Bool() {
			v, typeExpr = map[[2]string]int{{"a b", "c"}: 1, {"a", "b c"}: 2, {"a", "b"}: 3}, "map[[2]string]int"
			want = vcMap([]string{"[s3:a b,s1:c,]=>1", "[s1:a,s3:b c,]=>2", "[s1:a,s1:b,]=>3"})
		} else {
			v, typeExpr = map[Inner]int{{A: 1, B: "1 x"}: 1, {A: 11, B: "x"}: 2, {B: "1"}: 3}, "map[Inner]int"
			want = vcMap([]string{"{A=1;B=s3:1 x;}=>1", "{A=11;B=s1:x;}=>2", "{B=s1:1;}=>3"})
		}
	case 15: // same-named types of two packages with the same name, in both orders, through one dumper
		first := verifsym.Bool()
		type two = struct {
			A []pta.P
			B []ptb.P
		}
		if first {
			v, typeExpr = two{A: []pta.P{{X: 1}}, B: []ptb.P{{X: 2}}}, "struct {\n\tA []@A@.P\n\tB []@B@.P\n}"
		} else {
			v, typeExpr = two{B: []ptb.P{{X: 2}}}, "struct {\n\tA []@A@.P\n\tB []@B@.P\n}"
			// the other package's type was rendered before, by the same dumper
			d.ValueLit([]pta.P{{X: 7}})
		}
		want = "{A=[{X=1;},];B=[{X=2;},];}"
		if !first {
			want = "{B=[{X=2;},];}"
		}
	case 16: // a recursive type: every chain of n containers (pointer / slice / map) above a zero or non-zero leaf
		leaf := Rec{}
		if verifsym.Bool() {
			leaf.V = 1
		}
		cur := leaf
		for i := 0; i < n; i++ {
			switch verifsym.IntRange(0, 2) {
			case 0:
				c := cur
				cur = Rec{P: &c}
			case 1:
				cur = Rec{L: []Rec{cur}}
			default:
				cur = Rec{M: map[string]Rec{"k": cur}}
			}
		}
		v, typeExpr, want = cur, "Rec", vcRec(cur)
	case 10:
		pt := image.Point{X: int(vSmall()), Y: int(vSmall())}
		v, typeExpr, want = pt, "image.Point", vcPoint(pt)
	case 11:
		v, typeExpr, want = []*image.Point{{X: 1}, nil}, "[]*image.Point", "[&{X=1;},nil,]"
	case 9:
		v, typeExpr, want = [2]string{vSymStr(n), ""}, "[2]string", ""
		want = vcList([]string{vcStr(v.([2]string)[0]), vcStr("")})
	}
	var text string
	panicked := verifsym.Panics(func() { text = d.ValueLit(v) })
	verifsym.Assert(!panicked, "ValueLit panics on a value of its domain")
	if panicked {
		return
	}
	verifsym.Observe("text", text)
	vC10Judge(tr, text, typeExpr, want)
	// deterministic: the same text again, and when every map is walked in insertion order
	msg := "the rendered text of a value is not deterministic (two renderings differ / it depends on the iteration order of a map)"
	verifsym.Assert(d.ValueLit(v) == text, msg)
	verifsym.MapOrderBaseline(true)
	ref := d.ValueLit(v)
	verifsym.MapOrderBaseline(false)
	verifsym.Assert(ref == text, msg)
	verifsym.Reach("end")
}
