package gengo

import (
	"context"
	"fmt"

	"github.com/octohelm/gengo/pkg/gengo/snippet"
)

func vBackground() context.Context { return context.Background() }

func snippetArg(name, text string) snippet.TArg { return snippet.Arg(name, snippet.Block(text)) }

func errWrap(err error) error { return fmt.Errorf("wrapped: %w", err) }

func snippetPkgExpose(name, pkgPath, expose string) snippet.TArg {
	return snippet.Arg(name, snippet.PkgExpose(pkgPath, expose))
}

func snippetBlock(text string) snippet.Snippet { return snippet.Block(text) }
