package gengo

import (
	"errors"
	"go/scanner"

	"github.com/octohelm/gengo/internal/verifsym"
)

// ---------------------------------------------------------------- helpers

func vHasSub(s, sub string) bool {
	for i := 0; i+len(sub) <= len(s); i++ {
		if s[i:i+len(sub)] == sub {
			return true
		}
	}
	return false
}

func vHasPrefix(s, p string) bool { return len(s) >= len(p) && s[:len(p)] == p }

type vSnap map[string]string

func vSnapshot() vSnap {
	m := vSnap{}
	for _, f := range verifsym.FSList() {
		d, _ := verifsym.FSGet(f)
		m[f] = d
	}
	return m
}

func vGenFile(w *vWorld, rel, gen string) string {
	return w.root + "/" + rel + "/" + vBase + "." + gen + ".go"
}

// vAct picks a symbolic action out of the given menu.
func vAct(menu ...int) int { return menu[verifsym.IntRange(0, len(menu)-1)] }

func vSet(gen, pkgPath, typ string, act int) { vState.act[gen+"|"+pkgPath+"|"+typ] = act }

var vBoth = map[string][]string{"gengo:ga": {"true"}, "gengo:gb": {"true"}}

// vLastGen returns the generator of the last log entry ("ga:gen:..." -> "ga").
func vLastGen() string {
	if len(vState.log) == 0 {
		return ""
	}
	l := vState.log[len(vState.log)-1]
	return l[:2]
}

// ---------------------------------------------------------------- C02

// Verif_C02_Faults: package p (two types, both generators enabled) with an old
// generated file per generator and an old gengo.sum; optionally a second
// package. Every (generator, type) behaves symbolically: render / nothing /
// error / deferred error / unparseable rendering / deferred render. Whenever a
// generator fails or renders unparseable text: Execute returns the error (named
// with generator and package, or the parser's error list), the failing
// generator's old file is byte-identical, and gengo.sum is not rewritten. In
// every run the sum file is touched only after every package succeeded (so a
// process dying earlier leaves it untouched), and only when All is set.
func Verif_C02_Faults(withQ int) {
	vReset()
	w := vNewWorld()
	w.addPkg("p", true, "h1:new-p", nil, []string{"p.go", vBase + ".ga.go", vBase + ".gb.go"},
		[]vTypeSpec{{name: "A", tags: vBoth}, {name: "B", tags: vBoth}})
	pp := "example.com/m/p"
	menu := []int{vActRender, vActNothing, vActError, vActDeferErr, vActBadSyntax, vActDeferOK, vActPanic}
	for _, g := range []string{"ga", "gb"} {
		vSet(g, pp, "A", vAct(menu...))
		vSet(g, pp, "B", vAct(vActRender, vActNothing, vActError, vActBadSyntax, vActDeferOK))
	}
	addOther := func(other string) {
		w.addPkg(other, true, "h1:new-"+other, nil, []string{other + ".go"}, []vTypeSpec{{name: "T", tags: vBoth}})
		vSet("ga", "example.com/m/"+other, "T", vAct(vActRender, vActError, vActBadSyntax))
		vSet("gb", "example.com/m/"+other, "T", vActNothing)
	}
	switch withQ {
	case 1:
		// one more package, processed after ("q") or before ("a") p
		if verifsym.Bool() {
			addOther("a")
		} else {
			addOther("q")
		}
	case 2:
		// a package before AND a package after p
		addOther("a")
		addOther("q")
	}
	all := verifsym.Bool()
	sumPath := w.root + "/gengo.sum"
	verifsym.FSPut(sumPath, "example.com/m/p h1:old\n")
	before := vSnapshot()

	var err error
	died := verifsym.Panics(func() {
		err = w.exec(all, true, nil, vProtoA(), &vGenB{})
	})

	after := vSnapshot()
	trace := verifsym.FSTrace()
	if died {
		// the process died part-way through the run: gengo.sum must be untouched
		verifsym.Assert(after[sumPath] == before[sumPath], "gengo.sum rewritten by a run that died part-way (the next run would trust half-written output)")
		verifsym.Reach("end")
		return
	}

	// the sum file is only ever touched as the very last effects of a run, and only with All
	sumTouched := false
	for _, e := range trace {
		if vHasSub(e, "gengo.sum") {
			sumTouched = true
		} else {
			verifsym.Assert(!sumTouched, "a file is written after gengo.sum: a crash in between leaves a sum that vouches for unwritten output")
		}
	}
	if !all {
		verifsym.Assert(after[sumPath] == before[sumPath], "gengo.sum rewritten without All")
	}

	failing := false
	for _, l := range vState.log {
		_ = l
	}
	anyBad := false
	for k, a := range vState.act {
		_ = k
		if a == vActBadSyntax {
			anyBad = true
		}
	}
	if err != nil {
		failing = true
		verifsym.Assert(after[sumPath] == before[sumPath], "gengo.sum rewritten although the run failed")
		var sl scanner.ErrorList
		if errors.As(err, &sl) {
			verifsym.Assert(anyBad, "a syntax error is reported although nothing unparseable was rendered")
			// every generator that rendered unparseable text keeps its old file
			for k, a := range vState.act {
				if a == vActBadSyntax && vHasSub(k, "|"+pp+"|") {
					f := vGenFile(w, "p", k[:2])
					verifsym.Assert(after[f] == before[f], "file of a generator whose rendering does not parse was modified")
				}
			}
		} else {
			verifsym.Assert(errors.Is(err, vErrBoom), "Execute returns an error that is not the generator's")
			g := vLastGen()
			verifsym.Assert(vHasSub(err.Error(), g), "error does not name the generator")
			verifsym.Assert(vHasSub(err.Error(), "example.com/m/"), "error does not name the package")
			// the failing generator's previous file is byte-identical (package = the one in the last log entry)
			last := vState.log[len(vState.log)-1]
			for _, rel := range []string{"p", "q", "a"} {
				if vHasSub(last, "example.com/m/"+rel+".") {
					f := vGenFile(w, rel, g)
					verifsym.Assert(after[f] == before[f], "previously generated file of the failing generator was modified")
				}
			}
		}
	} else {
		// success: no fault may have been swallowed
		for _, l := range vState.log {
			verifsym.Assert(!vHasSub(l, ":act=4:") && !vHasSub(l, ":act=7:"), "a generator error / unparseable rendering was swallowed")
			// a type whose generator registered a failing deferred callback: that callback must have failed the run
			verifsym.Assert(!vHasSub(l, ":act=6:"), "the error of a deferred callback was swallowed")
		}
		// every registered deferred callback ran (a failing one cannot have been skipped silently)
		for _, l := range vState.log {
			if vHasSub(l, ":act=5:") || vHasSub(l, ":act=6:") {
				ran := false
				for _, d := range vState.log {
					if vHasPrefix(d, l[:2]+":defer:") && vHasSub(l, d[len("ga:defer:"):]+":act=") {
						ran = true
					}
				}
				verifsym.Assert(ran, "a deferred callback (which may fail) was never run although Execute reports success")
			}
		}
		if all {
			verifsym.Assert(after[sumPath] != before[sumPath], "successful All run did not record the new sums")
		}
	}
	verifsym.Observe("failed", failing)
	verifsym.Observe("log", vState.log)
	verifsym.Reach("end")
}

// ---------------------------------------------------------------- C07

// Verif_C07_Effects: processed package p (one type, both generators) with
// symbolic pre-existing files: old outputs, a stale output of a generator no
// longer run, a look-alike name without the dot, a user file; package q is in
// the module but not requested. Generators render / render nothing / ErrSkip /
// ErrIgnore symbolically; All symbolic.
func Verif_C07_Effects() { vEffects(0) }

// Verif_C07_EffectsNames: the look-alike file is one of several names that merely
// start with the base name (case split), and the stale output one of several
// <base>.<something> names.
func Verif_C07_EffectsNames() { vEffects(1) }

func vEffects(names int) {
	vReset()
	w := vNewWorld()
	files := []string{"p.go"}
	lookAlike, stale := vBase+"x.go", vBase+".old.go"
	if names == 1 {
		lookAlike = []string{vBase + "x.go", vBase + "_old.go", vBase, vBase + "_test.go"}[verifsym.IntRange(0, 3)]
		stale = []string{vBase + ".old.go", vBase + ".go", vBase + ".ga.go.bak"}[verifsym.IntRange(0, 2)]
	}
	opt := []string{vBase + ".ga.go", vBase + ".gb.go", stale, lookAlike, "user.go"}
	had := map[string]bool{}
	for _, f := range opt {
		if verifsym.Bool() {
			files = append(files, f)
			had[f] = true
		}
	}
	w.addPkg("p", true, "h1:p", nil, files, []vTypeSpec{{name: "A", tags: vBoth}, {name: "C", alias: true, tags: vBoth}})
	w.addPkg("q", false, "h1:q", nil, []string{"q.go", vBase + ".ga.go", vBase + ".old.go"}, []vTypeSpec{{name: "T", tags: vBoth}})
	pp, qp := "example.com/m/p", "example.com/m/q"
	actA := vAct(vActRender, vActNothing, vActSkip, vActIgnore)
	actB := vAct(vActRender, vActNothing, vActSkip, vActIgnore)
	actC := vAct(vActRender, vActNothing, vActIgnore) // gb on the alias type C (ga is not an AliasGenerator)
	vSet("ga", pp, "A", actA)
	vSet("gb", pp, "A", actB)
	vSet("gb", pp, "alias_C", actC)
	vSet("ga", qp, "T", vActRender)
	vSet("gb", qp, "T", vActNothing)
	all := verifsym.Bool()
	verifsym.FSPut(w.root+"/go.mod", "module example.com/m\n")
	before := vSnapshot()

	err := w.exec(all, true, nil, vProtoA(), &vGenB{})
	verifsym.Assert(err == nil, "Execute fails although no generator failed")

	after := vSnapshot()
	own := func(f string) bool {
		if vHasPrefix(f, w.root+"/p/"+vBase+".") {
			return true
		}
		if all && (vHasPrefix(f, w.root+"/q/"+vBase+".") || f == w.root+"/gengo.sum") {
			return true
		}
		return false
	}
	for f, d := range before {
		if !own(f) {
			d2, ok := after[f]
			verifsym.Assert(ok && d2 == d, "a file that is not gengo's own output was modified or deleted")
		}
	}
	for f := range after {
		if _, ok := before[f]; !ok {
			verifsym.Assert(own(f), "a file was created outside gengo's own outputs")
		}
	}
	// per generator: file exists afterwards iff it rendered something, except ErrIgnore keeps the previous file
	for _, x := range []struct {
		gen      string
		rendered bool
		ignored  bool
	}{
		{"ga", actA == vActRender, actA == vActIgnore},
		{"gb", actB == vActRender || actC == vActRender, actB == vActIgnore || actC == vActIgnore},
	} {
		f := vGenFile(w, "p", x.gen)
		_, exists := after[f]
		switch {
		case x.rendered:
			verifsym.Assert(exists && after[f] != before[f], "a generator rendered something but its file was not (re)written")
		case x.ignored:
			verifsym.Assert(exists == had[vBase+"."+x.gen+".go"], "ErrIgnore with nothing rendered must keep (and not invent) the previous file")
			if exists {
				verifsym.Assert(after[f] == before[f], "ErrIgnore changed the previous file")
			}
		default:
			verifsym.Assert(!exists, "a generator rendered nothing but its file exists afterwards")
		}
	}
	_, staleLeft := after[w.root+"/p/"+stale]
	verifsym.Assert(!staleLeft, "stale output of a generator that is no longer run was not removed")
	for _, l := range vState.log {
		if vHasSub(l, "example.com/m/q.") {
			verifsym.Assert(all, "a package that was not requested was processed without All")
		}
	}
	verifsym.Observe("log", vState.log)
	verifsym.Reach("end")
}

// Verif_C02_IOFaults: an I/O failure while writing - the destination of one of
// the two generators, or gengo.sum itself, cannot be opened - is reported by
// Execute; when a generated file could not be written gengo.sum is left
// untouched (the run did not complete), and the other package sources are
// never modified.
func Verif_C02_IOFaults() {
	vReset()
	w := vNewWorld()
	w.addPkg("p", true, "h1:new-p", nil, []string{"p.go", vBase + ".ga.go", vBase + ".gb.go"},
		[]vTypeSpec{{name: "A", tags: vBoth}})
	pp := "example.com/m/p"
	vSet("ga", pp, "A", vActRender)
	vSet("gb", pp, "A", vActRender)
	sumPath := w.root + "/gengo.sum"
	verifsym.FSPut(sumPath, "example.com/m/p h1:old\n")
	which := verifsym.IntRange(0, 2)
	switch which {
	case 0:
		verifsym.FSFailOpen(vGenFile(w, "p", "ga"))
	case 1:
		verifsym.FSFailOpen(vGenFile(w, "p", "gb"))
	case 2:
		verifsym.FSFailOpen(sumPath)
	}
	src, _ := verifsym.FSGet(w.root + "/p/p.go")
	before := vSnapshot()
	err := w.exec(true, true, nil, vProtoA(), &vGenB{})
	verifsym.Assert(err != nil, "an I/O failure while writing the output is not reported")
	// nothing but outputs may appear (e.g. no temporary file left behind next to gengo.sum)
	for f := range vSnapshot() {
		_, had := before[f]
		verifsym.Assert(had || f == vGenFile(w, "p", "ga") || f == vGenFile(w, "p", "gb") || f == sumPath, "a run that failed on I/O left a file behind that is not one of its outputs")
	}
	if which < 2 {
		d, ok := verifsym.FSGet(sumPath)
		verifsym.Assert(ok && d == "example.com/m/p h1:old\n", "gengo.sum rewritten although a generated file could not be written")
	}
	after, ok := verifsym.FSGet(w.root + "/p/p.go")
	verifsym.Assert(ok && after == src, "a source file was modified")
	verifsym.Reach("end")
}
