package gengo

import (
	"github.com/octohelm/gengo/internal/verifsym"
)

// ---------------------------------------------------------------- C04

// Verif_C04_Deterministic: module with p (types B, a, A) and q, both generators
// rendering, All set. The scenario is executed twice in two separate module
// roots: a reference run in which every map / sync.Map range iterates in
// insertion order, and a run in which each range in turn iterates reversed or
// rotated (single-deviation exploration), with the entrypoints flagged direct
// in every possible way. Every generated file and gengo.sum of the second run
// must be byte-identical to the reference run's (natively: two runs under Go's
// random iteration order, repeated for an order-dependent counterexample).
// Running again on the result (with and without Force) changes no file.
// Nothing is assumed about WHICH order the declarations are emitted in.
func Verif_C04_Deterministic() {
	pp, qp := "example.com/m/p", "example.com/m/q"
	types := []vTypeSpec{{name: "B", tags: vBoth}, {name: "a", tags: vBoth}, {name: "A", tags: vBoth}}
	qTypes := []vTypeSpec{{name: "A", tags: map[string][]string{}}}
	setActs := func() {
		vReset()
		for _, g := range []string{"ga", "gb"} {
			vSet(g, pp, "A", vActRender)
			vSet(g, pp, "B", vActRender)
			vSet(g, pp, "a", vActRender)
		}
		vSet("ga", qp, "A", vActRender)
	}
	// q: two source files with package docs that disagree on gengo:ga (later file wins: enabled)
	vFileDocs = map[string][]string{"q.go": {"+gengo:ga=false"}, "q_2.go": {"+gengo:ga"}}

	// reference run
	verifsym.MapOrderBaseline(true)
	setActs()
	ref := vNewWorldAt("ref")
	ref.addPkgNoFiles("p", true, "h1:p", types)
	ref.addPkgNoFiles("q", true, "h1:q", qTypes)
	err := ref.exec(true, false, nil, vProtoA(), &vGenB{})
	verifsym.MapOrderBaseline(false)
	verifsym.Assert(err == nil, "Execute fails")
	refFiles := map[string]string{}
	for f, d := range vSnapshot() {
		if vHasPrefix(f, ref.root+"/") {
			refFiles[f[len(ref.root):]] = d
		}
	}

	// the run under exploration
	setActs()
	w := vNewWorld()
	dp, dq := verifsym.Bool(), verifsym.Bool()
	verifsym.Assume(dp || dq)
	w.addPkgNoFiles("p", dp, "h1:p", types)
	w.addPkgNoFiles("q", dq, "h1:q", qTypes)
	err = w.exec(true, false, nil, vProtoA(), &vGenB{})
	verifsym.Assert(err == nil, "Execute fails")
	verifsym.Assert(len(vLogOf(qp)) > 0, "package doc tags of several files: the later file's value must win (q.A enabled for ga), whatever the iteration order")
	got := map[string]string{}
	for f, d := range vSnapshot() {
		if vHasPrefix(f, w.root+"/") {
			got[f[len(w.root):]] = d
		}
	}
	for f, d := range refFiles {
		d2, ok := got[f]
		verifsym.Assert(ok, "a file of the reference run is missing under another iteration order / entrypoint order")
		verifsym.Assert(!ok || d2 == d, "a generated file or gengo.sum differs between two runs on the same input (iteration order / entrypoint order)")
	}
	for f := range got {
		_, ok := refFiles[f]
		verifsym.Assert(ok, "a file appears under another iteration order / entrypoint order that the reference run did not write")
	}
	sum, ok := verifsym.FSGet(w.root + "/gengo.sum")
	verifsym.Assert(ok && sum == pp+" h1:p\n"+qp+" h1:q\n", "gengo.sum is not the sorted current hashes")

	// second run on the result: fixed point
	snap := vSnapshot()
	force := verifsym.Bool()
	setActs()
	w.pkgs, w.local, w.sums = map[string]gengotypesPackage{}, map[string]bool{}, map[string]string{}
	w.addPkgNoFiles("p", dp, "h1:p", types)
	w.addPkgNoFiles("q", dq, "h1:q", qTypes)
	err = w.exec(true, force, nil, vProtoA(), &vGenB{})
	verifsym.Assert(err == nil, "second run fails")
	snap2 := vSnapshot()
	for f, d := range snap {
		verifsym.Assert(snap2[f] == d, "a second run on the result of a run changed a generated file or gengo.sum")
	}
	for f := range snap2 {
		_, had := snap[f]
		verifsym.Assert(had, "a second run created a new file")
	}
	vFileDocs = nil
	verifsym.Reach("end")
}
