package gengo

import (
	"testing"

	"github.com/octohelm/gengo/internal/verifsym"
)

func TestVerifReplay(t *testing.T) {
	verifsym.RunReplay(t, verifHarnesses)
}
