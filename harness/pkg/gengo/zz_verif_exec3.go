package gengo

import (
	"github.com/octohelm/gengo/internal/verifsym"
)

// ---------------------------------------------------------------- C05

func vFilesOf(w *vWorld, rel string, snap vSnap) (names []string, data []string) {
	for _, g := range []string{"ga", "gb"} {
		f := vGenFile(w, rel, g)
		if d, ok := snap[f]; ok {
			names = append(names, g)
			data = append(data, d)
		}
	}
	return
}

func vLogOf(pkgPath string) []string {
	var out []string
	for _, l := range vState.log {
		if vHasSub(l, pkgPath+".") {
			out = append(out, l)
		}
	}
	return out
}

// Verif_C05_AloneVsTogether: the files produced for package p by two stateful
// generators (one created by reflection, one by New; each renders its
// per-instance call counter and a once-per-instance helper) are the same when p
// is processed alone and when it is processed together with another package
// that sorts before or after it, selected directly or through All.
func Verif_C05_AloneVsTogether() { vAloneVsTogether(false) }

// Verif_C05_AloneVsThree: the same with a package before AND a package after p.
func Verif_C05_AloneVsThree() { vAloneVsTogether(true) }

func vAloneVsTogether(three bool) {
	pp := "example.com/m/p"
	other := "q"
	if verifsym.Bool() {
		other = "a"
	}
	op := "example.com/m/" + other
	aA := vAct(vActRender, vActNothing, vActDeferOK)
	aB := vAct(vActRender, vActNothing)
	bA := vAct(vActRender, vActIgnore)
	otherDirect := verifsym.Bool()
	oAct := vAct(vActRender, vActNothing)
	config := func() {
		vSet("ga", pp, "A", aA)
		vSet("ga", pp, "B", aB)
		vSet("gb", pp, "A", bA)
		vSet("gb", pp, "B", vActRender)
		vSet("ga", op, "T", oAct)
		vSet("gb", op, "T", vActRender)
	}
	types := []vTypeSpec{{name: "A", tags: vBoth}, {name: "B", tags: vBoth}}

	// run 1: p alone
	vReset()
	config()
	w1 := vNewWorldAt("m1")
	w1.addPkg("p", true, "h1:p", nil, []string{"p.go"}, types)
	err1 := w1.exec(false, true, nil, vProtoA(), &vGenB{})
	verifsym.Assert(err1 == nil, "run with p alone fails")
	n1, d1 := vFilesOf(w1, "p", vSnapshot())
	log1 := vLogOf(pp)

	// run 2: p together with the other package
	vReset()
	config()
	w2 := vNewWorldAt("m2")
	w2.addPkg("p", true, "h1:p", nil, []string{"p.go"}, types)
	w2.addPkg(other, otherDirect, "h1:o", nil, []string{other + ".go"}, []vTypeSpec{{name: "T", tags: vBoth}})
	if three {
		third := "a"
		if other == "a" {
			third = "q"
		}
		vSet("ga", "example.com/m/"+third, "T", vActRender)
		vSet("gb", "example.com/m/"+third, "T", vActRender)
		w2.addPkg(third, otherDirect, "h1:t", nil, []string{third + ".go"}, []vTypeSpec{{name: "T", tags: vBoth}})
	}
	err2 := w2.exec(!otherDirect, true, nil, vProtoA(), &vGenB{})
	verifsym.Assert(err2 == nil, "run with p and another package fails")
	n2, d2 := vFilesOf(w2, "p", vSnapshot())
	log2 := vLogOf(pp)

	verifsym.Assert(len(n1) == len(n2), "a different set of files is produced for p when another package is processed")
	for i := range n1 {
		if i < len(n2) {
			verifsym.Assert(n1[i] == n2[i], "a different set of files is produced for p when another package is processed")
			verifsym.Assert(d1[i] == d2[i], "content generated for p depends on what else is processed in the run (generator state, buffer or import table carried over)")
		}
	}
	verifsym.Assert(len(log1) == len(log2), "generator calls for p differ")
	for i := range log1 {
		if i < len(log2) {
			verifsym.Assert(log1[i] == log2[i], "generator instance state seen by p differs (instance reused across packages)")
		}
	}
	verifsym.Assert(len(vLogOf(op)) > 0, "the other package was not processed in the together run")
	verifsym.Observe("files", n2)
	verifsym.Reach("end")
}

// ---------------------------------------------------------------- C06 (dispatch)

// vLevel: 0 absent, 1 exact key (enabled), 2 exact key = false, 3 a sub-tag
func vLevelTags(gen string, lvl int) map[string][]string {
	switch lvl {
	case 1:
		return map[string][]string{"gengo:" + gen: {""}}
	case 2:
		return map[string][]string{"gengo:" + gen: {"false"}}
	case 3:
		return map[string][]string{"gengo:" + gen + ":opt": {"x"}}
	}
	return map[string][]string{}
}

func vLevelLines(gen string, lvl int) []string {
	switch lvl {
	case 1:
		return []string{"+gengo:" + gen}
	case 2:
		return []string{"+gengo:" + gen + "=false"}
	case 3:
		return []string{"+gengo:" + gen + ":opt=x"}
	}
	return nil
}

// Verif_C06_Dispatch: package p with named types A and B, alias type C.
// The enabling tag of generator ga for A is placed symbolically at global,
// package and declaration level (absent / enabled / false / sub-tag each).
// Expected: GenerateType exactly once per enabled named type, GenerateAliasType
// only for aliases and only on an AliasGenerator, nothing for disabled types;
// a deferred callback runs exactly once, after the last GenerateType of its
// (package, generator) and before the file is written.
func Verif_C06_Dispatch() {
	vReset()
	lg, lp, ld := verifsym.IntRange(0, 3), verifsym.IntRange(0, 3), verifsym.IntRange(0, 3)
	declA := vLevelTags("ga", ld)
	declA["gengo:gb"] = []string{"true"}
	w := vNewWorld()
	w.addPkg("p", true, "h1:p", vLevelLines("ga", lp), []string{"p.go"}, []vTypeSpec{
		{name: "A", tags: declA},
		{name: "B", tags: vBoth},
		{name: "C", alias: true, tags: vBoth},
		{name: "D", tags: map[string][]string{"gengo:gax": {"true"}, "gengo:g": {"true"}}}, // names that are prefixes / extensions of "ga"
	})
	pp := "example.com/m/p"
	vSet("ga", pp, "A", vActRender)
	vSet("ga", pp, "B", vActRender)
	// gb either renders as it goes, or collects and renders only in its deferred callback
	onlyDefer := verifsym.Bool()
	if onlyDefer {
		// two callbacks made from the same function literal (one per type)
		vSet("gb", pp, "A", vActDeferOK)
		vSet("gb", pp, "alias_C", vActNothing)
	} else {
		vSet("gb", pp, "A", vActRender)
		vSet("gb", pp, "alias_C", vActRender)
	}
	// symbolically, the deferred callback registers a further callback while it runs
	nested := verifsym.Bool()
	if nested {
		vSet("gb", pp, "B", vActDeferNested)
	} else {
		vSet("gb", pp, "B", vActDeferOK)
	}
	err := w.exec(false, true, vLevelTags("ga", lg), vProtoA(), &vGenB{})
	verifsym.Assert(err == nil, "Execute fails")

	// effective tags: declaration over package over globals, key by key
	exact, exactVal, sub := false, "", false
	for _, l := range []int{lg, lp, ld} {
		switch l {
		case 1:
			exact, exactVal = true, ""
		case 2:
			exact, exactVal = true, "false"
		case 3:
			sub = true
		}
	}
	enabledA := sub
	if exact {
		enabledA = exactVal != "false"
	}
	// D carries no ga tag of its own: it is enabled for ga exactly when the
	// package or global level enables ga
	exactD, exactValD, subD := false, "", false
	for _, l := range []int{lg, lp} {
		switch l {
		case 1:
			exactD, exactValD = true, ""
		case 2:
			exactD, exactValD = true, "false"
		case 3:
			subD = true
		}
	}
	enabledD := subD
	if exactD {
		enabledD = exactValD != "false"
	}

	count := func(prefix string) int {
		n := 0
		for _, l := range vState.log {
			if vHasPrefix(l, prefix) {
				n++
			}
		}
		return n
	}
	wantA := 0
	if enabledA {
		wantA = 1
	}
	wantD := 0
	if enabledD {
		wantD = 1
	}
	verifsym.Assert(count("ga:gen:"+pp+".A:") == wantA, "GenerateType(ga, A) not called exactly according to the effective tags")
	verifsym.Assert(count("ga:gen:"+pp+".B:") == 1, "GenerateType(ga, B) not called exactly once")
	verifsym.Assert(count("ga:gen:"+pp+".D:") == wantD, "GenerateType(ga, D): a tag for another generator name (g, gax) enabled or disabled ga")
	verifsym.Assert(count("ga:gen:"+pp+".alias_C:") == 0 && count("ga:gen:"+pp+".C:") == 0, "an alias type reached a generator that is not an AliasGenerator")
	verifsym.Assert(count("gb:gen:"+pp+".A:") == 1 && count("gb:gen:"+pp+".B:") == 1, "GenerateType(gb, ...) not called exactly once per enabled named type")
	verifsym.Assert(count("gb:gen:"+pp+".D:") == 0, "GenerateType called for a type that is not enabled")
	verifsym.Assert(count("gb:gen:"+pp+".alias_C:") == 1 && count("gb:gen:"+pp+".C:") == 0, "alias type not dispatched to GenerateAliasType exactly once")
	wantDefers := 1
	if onlyDefer {
		wantDefers = 2
		verifsym.Assert(count("gb:defer:"+pp+".A") == 1, "deferred callback did not run exactly once")
	}
	verifsym.Assert(count("gb:defer:"+pp+".B") == 1 && count("gb:defer:") == wantDefers, "deferred callback did not run exactly once")
	if nested {
		verifsym.Assert(count("gb:defer2:") == 1, "a callback registered with Defer from inside a deferred callback did not run exactly once")
	}
	// the deferred callback ran after the last gb GenerateType
	seenDefer := false
	for _, l := range vState.log {
		if vHasPrefix(l, "gb:defer:") || vHasPrefix(l, "gb:defer2:") {
			seenDefer = true
		} else if vHasPrefix(l, "gb:gen:") {
			verifsym.Assert(!seenDefer, "a deferred callback ran before the package's last GenerateType")
		}
	}
	// ... and before the file was written: its rendering is in the file
	d, ok := verifsym.FSGet(vGenFile(w, "p", "gb"))
	verifsym.Assert(ok && vHasSub(d, "deferred_B_gb"), "the file was written before the deferred callback ran")
	if nested {
		verifsym.Assert(ok && vHasSub(d, "nested_B_gb"), "the file was written before a callback registered from inside a deferred callback ran")
	}
	verifsym.Observe("log", vState.log)
	verifsym.Reach("end")
}

// Verif_C06_DeferTree: generator gb registers one callback per type (A, B, D);
// every callback registers, while it runs, a symbolic number (0..2) of further
// callbacks, down to depth 3 - every shape of callback tree. Each registered
// callback runs exactly once, after the package's last GenerateType and before
// the file is written (its rendering is in the file).
func Verif_C06_DeferTree(ntypes int) {
	vReset()
	w := vNewWorld()
	en := map[string][]string{"gengo:gb": {"true"}}
	names := []string{"A", "B", "D"}[:ntypes]
	var specs []vTypeSpec
	for _, n := range names {
		specs = append(specs, vTypeSpec{name: n, tags: en})
	}
	w.addPkg("p", true, "h1:p", nil, []string{"p.go"}, specs)
	pp := "example.com/m/p"
	var ids []string
	var grow func(id string, depth int)
	grow = func(id string, depth int) {
		ids = append(ids, id)
		if depth == 3 {
			return
		}
		k := verifsym.IntRange(0, 2)
		vState.kids[id] = k
		for i := 0; i < k; i++ {
			grow(id+"_"+vItoa(i), depth+1)
		}
	}
	for _, n := range names {
		vSet("gb", pp, n, vActDeferTree)
		grow(n, 1)
	}
	err := w.exec(false, true, nil, &vGenB{})
	verifsym.Assert(err == nil, "Execute fails")
	d, ok := verifsym.FSGet(vGenFile(w, "p", "gb"))
	verifsym.Assert(ok, "no file written although callbacks rendered")
	for _, id := range ids {
		n := 0
		for _, l := range vState.log {
			if l == "gb:cb:"+id {
				n++
			}
		}
		verifsym.Assert(n == 1, "a callback registered with Defer (possibly from inside a running callback) did not run exactly once")
		verifsym.Assert(ok && vHasSub(d, "cb_"+id+"_gb "), "the file was written before a registered callback ran")
	}
	ncb := 0
	for _, l := range vState.log {
		if vHasPrefix(l, "gb:cb:") {
			ncb++
		} else if vHasPrefix(l, "gb:gen:") {
			verifsym.Assert(ncb == 0, "a deferred callback ran before the package's last GenerateType")
		}
	}
	verifsym.Assert(ncb == len(ids), "callbacks ran that were never registered")
	verifsym.Observe("log", vState.log)
	verifsym.Reach("end")
}

// Verif_C06_TwoPackages: packages a, p, q processed in one run (All); the tag
// for generator ga is placed symbolically (absent / enabled / false / sub-tag)
// at global level (Globals nil or non-nil) and in every package's doc; the
// types carry no ga tag. GenerateType(ga, T) must be called for a package's
// type exactly according to THAT package's effective tags (its own doc over the
// globals) - never according to a tag of another package processed before.
func Verif_C06_TwoPackages() {
	vReset()
	lg := verifsym.IntRange(0, 3)
	lv := []int{verifsym.IntRange(0, 3), verifsym.IntRange(0, 3), verifsym.IntRange(0, 3)}
	var globals map[string][]string
	if lg != 0 || verifsym.Bool() {
		globals = vLevelTags("ga", lg)
	}
	w := vNewWorld()
	rels := []string{"a", "p", "q"}
	for i, rel := range rels {
		w.addPkg(rel, true, "h1:"+rel, vLevelLines("ga", lv[i]), []string{rel + ".go"}, []vTypeSpec{{name: "T", tags: map[string][]string{}}})
		vSet("ga", "example.com/m/"+rel, "T", vActRender)
	}
	err := w.exec(false, true, globals, vProtoA())
	verifsym.Assert(err == nil, "Execute fails")
	for i, rel := range rels {
		exact, exactVal, sub := false, "", false
		for _, l := range []int{lg, lv[i]} {
			switch l {
			case 1:
				exact, exactVal = true, ""
			case 2:
				exact, exactVal = true, "false"
			case 3:
				sub = true
			}
		}
		want := 0
		if (exact && exactVal != "false") || (!exact && sub) {
			want = 1
		}
		n := 0
		for _, l := range vState.log {
			if vHasPrefix(l, "ga:gen:example.com/m/"+rel+".T:") {
				n++
			}
		}
		verifsym.Assert(n == want, "GenerateType(ga, T) of a package not called exactly according to that package's own effective tags (package doc over globals)")
	}
	verifsym.Observe("log", vState.log)
	verifsym.Reach("end")
}

// ---------------------------------------------------------------- C08 (histories)

// Verif_C08_History: three consecutive runs over a module with packages p and
// q. Initial gengo.sum: absent / corrupt / recorded for the current state /
// recorded for an older state / current plus a stale entry of a removed package. Run 1 with symbolic All and Force, and a
// generator of p that may fail; then p is symbolically edited (its directory
// hash changes); run 2 with All and symbolic Force; run 3 with All, no Force,
// no edit. A package is skipped exactly when Force is off and the hash recorded
// at the start of the run equals its current hash; a successful All run records
// exactly the current hashes; run 3 regenerates nothing and changes nothing.
func Verif_C08_History() {
	pp, qp := "example.com/m/p", "example.com/m/q"
	w := vNewWorld()
	sumPath := w.root + "/gengo.sum"
	cur := map[string]string{pp: "h1:p1", qp: "h1:q1"}
	// model of what the sum file records (nil: unreadable -> everything changed)
	var rec map[string]string
	switch verifsym.IntRange(0, 4) {
	case 0:
	case 1:
		verifsym.FSPut(sumPath, "garbage\n\x00 \n")
		rec = map[string]string{}
	case 2:
		verifsym.FSPut(sumPath, pp+" h1:p1\n"+qp+" h1:q1\n")
		rec = map[string]string{pp: "h1:p1", qp: "h1:q1"}
	case 3:
		verifsym.FSPut(sumPath, pp+" h1:p0\n")
		rec = map[string]string{pp: "h1:p0"}
	case 4:
		// a longer file than the one a successful run will write: it also records a
		// package that no longer exists
		verifsym.FSPut(sumPath, pp+" h1:p1\n"+qp+" h1:q1\nexample.com/m/removed h1:gone\n")
		rec = map[string]string{pp: "h1:p1", qp: "h1:q1"}
	}
	types := []vTypeSpec{{name: "A", tags: vBoth}}
	build := func() {
		w.pkgs, w.local, w.sums = nil, nil, nil
		w.pkgs = map[string]gengotypesPackage{}
		w.local = map[string]bool{}
		w.sums = map[string]string{}
		w.addPkgNoFiles("p", true, cur[pp], types)
		w.addPkgNoFiles("q", true, cur[qp], types)
	}
	run := func(all, force bool, actP int) (ranP, ranQ bool, err error) {
		vReset()
		vSet("ga", pp, "A", actP)
		vSet("ga", qp, "A", vActRender)
		vSet("gb", pp, "A", vActNothing)
		vSet("gb", qp, "A", vActNothing)
		build()
		err = w.exec(all, force, nil, vProtoA(), &vGenB{})
		return len(vLogOf(pp)) > 0, len(vLogOf(qp)) > 0, err
	}
	expectRun := func(all, force bool, pkg string) bool {
		if force || !all || rec == nil {
			return true
		}
		return rec[pkg] != cur[pkg]
	}
	after := func(all bool, err error) {
		if err == nil && all {
			rec = map[string]string{pp: cur[pp], qp: cur[qp]}
			d, ok := verifsym.FSGet(sumPath)
			verifsym.Assert(ok && d == pp+" "+cur[pp]+"\n"+qp+" "+cur[qp]+"\n", "after a successful All run gengo.sum is not exactly the sorted current hashes")
		}
	}

	// run 1
	all1, force1 := verifsym.Bool(), verifsym.Bool()
	act1 := vAct(vActRender, vActError)
	sumBefore, hadSum := verifsym.FSGet(sumPath)
	wantP, wantQ := expectRun(all1, force1, pp), expectRun(all1, force1, qp)
	ranP, ranQ, err := run(all1, force1, act1)
	verifsym.Assert(ranP == wantP, "run 1: package p skipped/regenerated against the cache rule")
	if err == nil {
		verifsym.Assert(ranQ == wantQ, "run 1: package q skipped/regenerated against the cache rule")
	} else {
		d, ok := verifsym.FSGet(sumPath)
		verifsym.Assert(ok == hadSum && d == sumBefore, "a failed run rewrote gengo.sum")
	}
	after(all1, err)

	// edit p?
	if verifsym.Bool() {
		cur[pp] = "h1:p2"
	}

	// run 2: All, symbolic Force
	force2 := verifsym.Bool()
	wantP, wantQ = expectRun(true, force2, pp), expectRun(true, force2, qp)
	ranP, ranQ, err = run(true, force2, vActRender)
	verifsym.Assert(err == nil, "run 2 fails")
	verifsym.Assert(ranP == wantP, "run 2: package p skipped although its directory changed / regenerated although unchanged")
	verifsym.Assert(ranQ == wantQ, "run 2: package q skipped/regenerated against the cache rule")
	after(true, err)

	// run 3: nothing changed
	snap := vSnapshot()
	ranP, ranQ, err = run(true, false, vActRender)
	verifsym.Assert(err == nil && !ranP && !ranQ, "a run on unchanged inputs regenerated something")
	snap3 := vSnapshot()
	for f, d := range snap {
		verifsym.Assert(snap3[f] == d, "a run on unchanged inputs changed a file")
	}
	verifsym.Reach("end")
}

// Verif_C05_TagLeak: p's type A is enabled for gb only (declaration tag); the
// other package - sorting before or after p - enables ga in its PACKAGE doc;
// Globals is, symbolically, nil or a non-nil map holding an unrelated tag.
// p's files are the same alone and together (a tag of one package must not
// become visible in another - e.g. through a Globals map that is merged into
// instead of copied), and the caller's Globals map is not modified.
func Verif_C05_TagLeak() {
	pp := "example.com/m/p"
	other := "q"
	if verifsym.Bool() {
		other = "a"
	}
	op := "example.com/m/" + other
	var globals map[string][]string
	if verifsym.Bool() {
		globals = map[string][]string{"gengo:zz": {"true"}}
	}
	config := func() {
		vReset()
		for _, g := range []string{"ga", "gb"} {
			vSet(g, pp, "A", vActRender)
			vSet(g, op, "T", vActRender)
		}
	}
	types := []vTypeSpec{{name: "A", tags: map[string][]string{"gengo:gb": {"true"}}}}

	config()
	w1 := vNewWorldAt("m1")
	w1.addPkg("p", true, "h1:p", nil, []string{"p.go"}, types)
	verifsym.Assert(w1.exec(false, true, globals, vProtoA(), &vGenB{}) == nil, "run with p alone fails")
	n1, d1 := vFilesOf(w1, "p", vSnapshot())

	config()
	w2 := vNewWorldAt("m2")
	w2.addPkg("p", true, "h1:p", nil, []string{"p.go"}, types)
	w2.addPkg(other, true, "h1:o", []string{"+gengo:ga"}, []string{other + ".go"}, []vTypeSpec{{name: "T", tags: map[string][]string{}}})
	verifsym.Assert(w2.exec(false, true, globals, vProtoA(), &vGenB{}) == nil, "run with p and another package fails")
	n2, d2 := vFilesOf(w2, "p", vSnapshot())
	verifsym.Assert(len(vLogOf(op)) > 0, "the other package was not processed in the together run (its package doc enables ga)")

	verifsym.Assert(len(n1) == len(n2), "a different set of files is produced for p when another package is processed")
	for i := range n1 {
		if i < len(n2) {
			verifsym.Assert(n1[i] == n2[i], "a different set of files is produced for p when another package is processed")
			verifsym.Assert(d1[i] == d2[i], "content generated for p depends on what else is processed in the run (generator state, buffer or import table carried over)")
		}
	}
	for _, l := range vLogOf(pp) {
		verifsym.Assert(!vHasPrefix(l, "ga:gen:"), "a generator enabled only by ANOTHER package's doc tags ran for p")
	}
	if globals != nil {
		n := 0
		for range globals {
			n++
		}
		verifsym.Assert(n == 1 && len(globals["gengo:zz"]) == 1, "Execute modified the caller's Globals map")
	}
	verifsym.Reach("end")
}
