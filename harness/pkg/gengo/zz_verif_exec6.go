package gengo

import (
	"go/ast"
	"go/parser"
	"go/token"
	"go/types"
	"os"

	"github.com/go-courier/logr"
	"golang.org/x/mod/sumdb/dirhash"
	"golang.org/x/tools/go/packages"

	"github.com/octohelm/gengo/internal/verifsym"
)

// ======================================================================
// Load + Execute in one scenario (C08): the real NewContext -> types.Load ->
// register -> newPkg -> Execute -> pkgExecute -> WriteToFile -> sumfile chain
// on a small module of real source files. Under the engine go/packages is the
// contract stub, fed by a builder that makes, for every source file, the
// *packages.Package go/packages would make (syntax tree with its comments,
// types.Info.Defs, positions in the FileSet Load configured); natively the
// module is written to a temporary directory and loaded for real. Directory
// hashes are exact on both sides.
// ======================================================================

type vLoadMod struct {
	root  string
	names []string
	// per package: the package doc line ("" = none; default "+gengo:ga") and, per type, a doc line ("" = none)
	pkgDoc  map[string]string
	types   []string
	typeDoc map[string]string // key: pkg + "." + type
}

func (m *vLoadMod) pkgDocOf(n string) string {
	if m.pkgDoc == nil {
		return "+gengo:ga"
	}
	return m.pkgDoc[n]
}

func (m *vLoadMod) typesOf() []string {
	if m.types == nil {
		return []string{"T"}
	}
	return m.types
}

func (m *vLoadMod) src(name string) string {
	s := ""
	if d := m.pkgDocOf(name); d != "" {
		s += "// " + d + "\n"
	}
	s += "package " + name + "\n"
	for _, t := range m.typesOf() {
		s += "\n"
		if d := m.typeDoc[name+"."+t]; d != "" {
			s += "// " + d + "\n"
		}
		s += "type " + t + " int\n"
	}
	return s
}

func (m *vLoadMod) write() {
	verifsym.FSMkdir(m.root)
	verifsym.FSPut(m.root+"/go.mod", "module example.com/m\n\ngo 1.24\n")
	for _, n := range m.names {
		verifsym.FSMkdir(m.root + "/" + n)
		verifsym.FSPut(m.root+"/"+n+"/"+n+".go", m.src(n))
	}
}

func vIndexOf(s, sub string, from int) int {
	for i := from; i+len(sub) <= len(s); i++ {
		if s[i:i+len(sub)] == sub {
			return i
		}
	}
	panic("harness: piece not found in scenario source: " + sub)
}

// build: what go/packages returns for the module as it is on the (model)
// filesystem now: one package per directory, its Go files parsed - generated
// files of earlier runs included, as the real loader would see them. The
// syntax tree follows go/parser's rules: a comment group ending on the line
// directly above the package clause / a declaration is its Doc.
func (m *vLoadMod) build(cfg *packages.Config) []*packages.Package {
	module := &packages.Module{Path: "example.com/m", Dir: m.root, GoVersion: "1.24"}
	var out []*packages.Package
	for _, n := range m.names {
		dir := m.root + "/" + n
		tpkg := types.NewPackage("example.com/m/"+n, n)
		p := &packages.Package{ID: tpkg.Path(), PkgPath: tpkg.Path(), Name: n, Dir: dir, Module: module,
			Imports: map[string]*packages.Package{}, Types: tpkg, Fset: cfg.Fset,
			TypesInfo: &types.Info{Defs: map[*ast.Ident]types.Object{}, Types: map[ast.Expr]types.TypeAndValue{}}}
		text := m.src(n)
		tf := cfg.Fset.AddFile(dir+"/"+n+".go", -1, len(text))
		tf.SetLinesForContent([]byte(text))
		base := tf.Base()
		at := func(off int) token.Pos { return token.Pos(base + off) }
		file := &ast.File{FileStart: at(0), FileEnd: at(len(text))}
		if d := m.pkgDocOf(n); d != "" {
			file.Doc = &ast.CommentGroup{List: []*ast.Comment{{Slash: at(0), Text: "// " + d}}}
			file.Comments = append(file.Comments, file.Doc)
		}
		pkgOff := vIndexOf(text, "package "+n+"\n", 0)
		file.Package = at(pkgOff)
		file.Name = &ast.Ident{NamePos: at(pkgOff + 8), Name: n}
		from := pkgOff
		for _, t := range m.typesOf() {
			off := vIndexOf(text, "type "+t+" int\n", from)
			from = off + 1
			ident := &ast.Ident{NamePos: at(off + 5), Name: t}
			gd := &ast.GenDecl{Tok: token.TYPE, TokPos: at(off), Specs: []ast.Spec{&ast.TypeSpec{Name: ident, Type: &ast.Ident{NamePos: at(off + 6 + len(t)), Name: "int"}}}}
			if d := m.typeDoc[n+"."+t]; d != "" {
				gd.Doc = &ast.CommentGroup{List: []*ast.Comment{{Slash: at(off - len("// "+d+"\n")), Text: "// " + d}}}
				file.Comments = append(file.Comments, gd.Doc)
			}
			file.Decls = append(file.Decls, gd)
			obj := types.NewTypeName(ident.NamePos, tpkg, t, nil)
			types.NewNamed(obj, types.Typ[types.Int], nil)
			tpkg.Scope().Insert(obj)
			p.TypesInfo.Defs[ident] = obj
		}
		p.Syntax = append(p.Syntax, file)
		// generated files of earlier runs: the loader sees them as files of the package
		for _, g := range []string{"ga", "gb"} {
			gf := dir + "/" + vBase + "." + g + ".go"
			if d, ok := verifsym.FSGet(gf); ok {
				gtf := cfg.Fset.AddFile(gf, -1, len(d))
				gb := token.Pos(gtf.Base())
				p.Syntax = append(p.Syntax, &ast.File{Package: gb, Name: ast.NewIdent(n), FileStart: gb, FileEnd: gb + token.Pos(len(d))})
			}
		}
		tpkg.MarkComplete()
		out = append(out, p)
	}
	return out
}

// run: one complete invocation (a new context, i.e. a new Load).
func (m *vLoadMod) run(force bool) error { return m.runWith(force, nil, vProtoA()) }

func (m *vLoadMod) runWith(force bool, globals map[string][]string, gens ...Generator) error {
	var patterns []string
	for _, n := range m.names {
		patterns = append(patterns, "example.com/m/"+n)
	}
	args := &GeneratorArgs{Entrypoint: patterns, OutputFileBaseName: vBase, All: true, Force: force, Globals: globals}
	var ex Executor
	var err error
	if verifsym.Symbolic() {
		verifsym.Provide("packages.Load", m.build)
		ex, err = NewContext(args)
	} else {
		wd, _ := os.Getwd()
		os.Setenv("GOFLAGS", "-mod=mod")
		if cerr := os.Chdir(m.root); cerr != nil {
			panic(cerr)
		}
		ex, err = NewContext(args)
		os.Chdir(wd)
		// sanity: the scenario source is what the builder models
		for _, n := range m.names {
			if _, perr := parser.ParseFile(token.NewFileSet(), n+".go", m.src(n), parser.ParseComments); perr != nil {
				panic(perr)
			}
		}
	}
	if err != nil {
		return err
	}
	c := ex.(*gengoCtx)
	c.l = logr.Discard()
	return c.Execute(vBackground(), gens...)
}

func (m *vLoadMod) hashes() map[string]string {
	out := map[string]string{}
	for _, n := range m.names {
		h, err := dirhash.HashDir(m.root+"/"+n, "", dirhash.Hash1)
		if err != nil {
			panic("harness: cannot hash " + n)
		}
		out["example.com/m/"+n] = h
	}
	return out
}

func (m *vLoadMod) wantSum(h map[string]string) string {
	s := ""
	for _, n := range m.names { // names are sorted
		s += "example.com/m/" + n + " " + h["example.com/m/"+n] + "\n"
	}
	return s
}

// Verif_C08_LoadExecute: a module with packages pa and pb (package doc enables
// ga, one type each). Three complete invocations (new context = new Load each
// time), the first two with symbolic Force, the last unforced:
//   - after every invocation gengo.sum is exactly one sorted `path hash` line per
//     package, the hash being that of the package directory AT LOAD TIME of that
//     invocation (i.e. before it generated anything);
//   - a package is regenerated iff Force is set or its directory hash differs
//     from the recorded one; an edited source file makes exactly that package
//     regenerate;
//   - the unforced third invocation on unchanged inputs changes nothing.
func Verif_C08_LoadExecute() {
	root := verifsym.FSRoot() + "/m"
	m := &vLoadMod{root: root, names: []string{"pa", "pb"}}
	m.write()
	sumPath := root + "/gengo.sum"

	// invocation 1: no gengo.sum yet -> everything is generated
	vReset()
	h1 := m.hashes()
	f1 := verifsym.Bool()
	verifsym.Assert(m.run(f1) == nil, "Execute fails")
	sum, ok := verifsym.FSGet(sumPath)
	verifsym.Assert(ok && sum == m.wantSum(h1), "after a successful All run gengo.sum is not one sorted `path hash` line per package with each package's directory hash at load time")
	for _, n := range m.names {
		_, ok := verifsym.FSGet(root + "/" + n + "/" + vBase + ".ga.go")
		verifsym.Assert(ok, "first run (no gengo.sum): a package was not generated")
	}

	// invocation 2: the directories now hold the generated files, so their hashes differ from the
	// recorded (load-time) ones and everything is regenerated; symbolically pb's source is edited first
	edit := verifsym.Bool()
	if edit {
		verifsym.FSPut(root+"/pb/extra.txt", "edited\n")
	}
	vReset()
	h2 := m.hashes()
	f2 := verifsym.Bool()
	verifsym.Assert(m.run(f2) == nil, "second Execute fails")
	sum, ok = verifsym.FSGet(sumPath)
	verifsym.Assert(ok && sum == m.wantSum(h2), "after the second run gengo.sum is not the directory hashes at its load time")
	verifsym.Assert(len(vLogOf("example.com/m/pa")) > 0 && len(vLogOf("example.com/m/pb")) > 0, "a package whose directory changed since the recorded hash (generated files appeared) was skipped as cached")

	// invocation 3, unforced, nothing changed since invocation 2 loaded: recorded hashes match -> nothing runs, nothing changes
	before := vSnapshot()
	vReset()
	verifsym.Assert(m.run(false) == nil, "third Execute fails")
	verifsym.Assert(len(vState.log) == 0, "a package whose directory hash equals the recorded one was regenerated without Force")
	after := vSnapshot()
	for f, d := range before {
		verifsym.Assert(after[f] == d, "a run on unchanged inputs changed a file")
	}
	for f := range after {
		_, had := before[f]
		verifsym.Assert(had, "a run on unchanged inputs created a file")
	}
	verifsym.Reach("end")
}

// vTagLine: a doc line for generator ga at one level: 0 none, 1 "+gengo:ga", 2 "+gengo:ga=false", 3 "+gengo:ga:opt=x" (sub-tag only).
func vTagLine(level int) string {
	switch level {
	case 1:
		return "+gengo:ga"
	case 2:
		return "+gengo:ga=false"
	case 3:
		return "+gengo:ga:opt=x"
	}
	return ""
}

// Verif_C06_LoadDispatch: the enablement rule end to end through the real
// loader: package pa with types A and B in a real source file; the tag for ga
// at global level, in the package doc, and in A's doc comment is each absent /
// bare / =false / sub-tag only (4 x 4 x 4 combinations by case split); B has no
// doc. GenerateType(ga, .) is called exactly for the types the rule enables:
// declaration over package over global; the exact tag decides by itself,
// otherwise a sub-tag enables.
func Verif_C06_LoadDispatch() {
	lg, lp, ld := verifsym.IntRange(0, 3), verifsym.IntRange(0, 3), verifsym.IntRange(0, 3)
	root := verifsym.FSRoot() + "/m"
	m := &vLoadMod{root: root, names: []string{"pa"}, types: []string{"A", "B"},
		pkgDoc: map[string]string{"pa": vTagLine(lp)}, typeDoc: map[string]string{"pa.A": vTagLine(ld)}}
	m.write()
	var globals map[string][]string
	switch lg {
	case 1:
		globals = map[string][]string{"gengo:ga": {"true"}}
	case 2:
		globals = map[string][]string{"gengo:ga": {"false"}}
	case 3:
		globals = map[string][]string{"gengo:ga:opt": {"x"}}
	}
	vReset()
	verifsym.Assert(m.runWith(true, globals, vProtoA()) == nil, "Execute fails")
	// the rule, level by level (later levels override earlier ones key by key)
	enabled := func(levels ...int) bool {
		exact, exactOn, sub := false, false, false
		for _, l := range levels {
			switch l {
			case 1:
				exact, exactOn = true, true
			case 2:
				exact, exactOn = true, false
			case 3:
				sub = true
			}
		}
		if exact {
			return exactOn
		}
		return sub
	}
	count := func(t string) int {
		n := 0
		for _, l := range vState.log {
			if vHasPrefix(l, "ga:gen:example.com/m/pa."+t+":") {
				n++
			}
		}
		return n
	}
	wantA, wantB := 0, 0
	if enabled(lg, lp, ld) {
		wantA = 1
	}
	if enabled(lg, lp) {
		wantB = 1
	}
	verifsym.Assert(count("A") == wantA, "GenerateType(ga, A) not called exactly when the effective tags (declaration over package over global) enable ga")
	verifsym.Assert(count("B") == wantB, "GenerateType(ga, B) not called exactly when the effective tags (package over global) enable ga")
	verifsym.Observe("log", vState.log)
	verifsym.Reach("end")
}
