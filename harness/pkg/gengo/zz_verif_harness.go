package gengo

import (
	"bytes"
	"go/types"

	gengotypes "github.com/octohelm/gengo/pkg/types"

	"github.com/octohelm/gengo/internal/verifsym"
)

// ---------------------------------------------------------------- C03: import block printing

func vLower(n int) string {
	b := make([]byte, n)
	for i := range b {
		c := verifsym.Byte()
		verifsym.Assume(c >= 'a' && c <= 'z')
		b[i] = c
	}
	return string(b)
}

// Verif_C03_WriteImports: the import block printed from a path->name map of k
// symbolic entries contains exactly one line per entry (in some order: the
// block is re-sorted by ast.SortImports afterwards, so order is deliberately
// not asserted), and nothing for an empty map.
func Verif_C03_WriteImports(k int) {
	m := map[string]string{}
	var paths, names []string
	for i := 0; i < k; i++ {
		p := vLower(2)
		for _, q := range paths {
			verifsym.Assume(p != q)
		}
		n := vLower(1)
		m[p] = n
		paths = append(paths, p)
		names = append(names, n)
	}
	w := bytes.NewBuffer(nil)
	writeImports(w, m)
	out := w.String()
	if k == 0 {
		verifsym.Assert(out == "", "empty import table prints something")
		verifsym.Reach("end")
		return
	}
	line := func(i int) string { return "\t" + names[i] + " \"" + paths[i] + "\"\n" }
	ok := false
	switch k {
	case 1:
		ok = out == "\nimport (\n"+line(0)+")\n"
	case 2:
		ok = out == "\nimport (\n"+line(0)+line(1)+")\n" || out == "\nimport (\n"+line(1)+line(0)+")\n"
	case 3:
		for a := 0; a < 3; a++ {
			for b := 0; b < 3; b++ {
				for c := 0; c < 3; c++ {
					if a != b && b != c && a != c && out == "\nimport (\n"+line(a)+line(b)+line(c)+")\n" {
						ok = true
					}
				}
			}
		}
	}
	verifsym.Assert(ok, "import block is not exactly one line per referenced package")
	verifsym.Observe("out", out)
	verifsym.Reach("end")
}

// ---------------------------------------------------------------- C06: enablement rule and tag merge

type vGen struct{ name string }

func (g *vGen) Name() string { return g.name }

func (g *vGen) GenerateType(Context, *types.Named) error { return nil }

func vKey(n int) string { return verifsym.String(n) }

// Verif_C06_Enabled: tags = k entries whose keys are fully symbolic strings of
// lengths around len("gengo:g") (so "gengo:g", "gengo:g:x", "gengo:gx" - a
// generator whose name is a prefix of another - all arise as models), values
// symbolic, under every map iteration order. Result = order-free specification:
// exact key present -> value != "false"; else any "gengo:<name>:" prefix ->
// true; else false. (The exact key's value list is single-valued: the statement
// is silent on a repeated tag.)
func Verif_C06_Enabled(genLen, k, l1, l2, l3 int) {
	name := "g"
	if genLen == 2 {
		name = "gx"
	}
	prefix := "gengo:" + name
	tags := map[string][]string{}
	lens := []int{l1, l2, l3}
	var keys []string
	for i := 0; i < k; i++ {
		key := vKey(lens[i])
		for _, q := range keys {
			verifsym.Assume(key != q)
		}
		keys = append(keys, key)
		// value: "false", "true" or a symbolic 5-byte text, chosen symbolically
		var v string
		switch verifsym.IntRange(0, 2) {
		case 0:
			v = "false"
		case 1:
			v = ""
		default:
			v = verifsym.String(5)
		}
		tags[key] = []string{v}
	}
	// specification, independent of order
	want := false
	exact := false
	for i, key := range keys {
		_ = i
		if key == prefix {
			exact = true
			want = tags[key][0] != "false"
		}
	}
	if !exact {
		for _, key := range keys {
			if len(key) > len(prefix) && key[:len(prefix)+1] == prefix+":" {
				want = true
			}
		}
	}
	got := IsGeneratorEnabled(&vGen{name: name}, tags)
	verifsym.Assert(got == want, "IsGeneratorEnabled differs from the rule (or depends on map iteration order)")
	verifsym.Observe("got", got)
	verifsym.Reach("end")
}

// Verif_C06_Merge: merge(globals, pkg, decl)[k] = decl's, else pkg's, else
// globals' value, for symbolic presence of key "k" at each level and a second
// key "j" present somewhere, under every iteration order.
func Verif_C06_Merge() {
	mk := func(tag string) map[string][]string {
		m := map[string][]string{}
		if verifsym.Bool() {
			m["k"] = []string{tag}
		}
		if verifsym.Bool() {
			m["j"] = []string{tag + "j"}
		}
		return m
	}
	g, p, d := mk("G"), mk("P"), mk("D")
	got := merge(g, p, d)
	for _, key := range []string{"k", "j"} {
		want := ""
		has := false
		for _, m := range []map[string][]string{g, p, d} {
			if v, ok := m[key]; ok {
				want, has = v[0], true
			}
		}
		v, ok := got[key]
		verifsym.Assert(ok == has, "merged tag presence differs")
		if ok && has {
			verifsym.Assert(len(v) == 1 && v[0] == want, "merge precedence is not globals < package < declaration")
		}
	}
	n := 0
	for range got {
		n++
	}
	verifsym.Assert(n <= 2, "merge invented a key")
	verifsym.Reach("end")
}

// ---------------------------------------------------------------- C15: PkgImportPathAndExpose vs ParseRef

// Verif_C15_Expose: for every reference string of n arbitrary bytes (brackets
// allowed), PkgImportPathAndExpose and types.ParseRef agree on where the
// package path ends: the path is everything before the last '.' that precedes
// the first '[', and the names agree up to the first '['. (n < 8, so the
// "/vendor/" trimming cannot apply.)
func Verif_C15_Expose(n int) {
	s := verifsym.String(n)
	if n > 0 {
		verifsym.Assume(s[0] != '[') // a reference starts with a path or an identifier (well-formedness)
	}
	path, expose := PkgImportPathAndExpose(s)
	r, err := gengotypes.ParseRef(s)
	if err != nil {
		verifsym.Assert(path == "", "PkgImportPathAndExpose finds a package path where ParseRef finds none")
	} else {
		verifsym.Assert(path == r.Pkg().Path(), "PkgImportPathAndExpose and ParseRef disagree on the package path")
		name := r.Name()
		cut := len(name)
		for i := 0; i < len(name); i++ {
			if name[i] == '[' {
				cut = i
				break
			}
		}
		// ParseRef keeps the argument list in the name; the expose name is the part before it
		if cut > 0 || len(name) == 0 {
			verifsym.Assert(expose == name[:cut], "PkgImportPathAndExpose and ParseRef disagree on the name")
		}
	}
	verifsym.Observe("path", path)
	verifsym.Observe("expose", expose)
	verifsym.Reach("end")
}

// Verif_C15_ExposeVendor: references whose package path and whose type
// argument both come from vendored paths (symbolic one-byte pieces around the
// literal "/vendor/"): PkgImportPathAndExpose returns the name ParseRef finds
// (up to the argument list) and ParseRef's package path after the vendor
// trimming of ImportGoPath - in particular a "/vendor/" inside the ARGUMENT list
// must not move the boundary.
func Verif_C15_ExposeVendor(withArg int) {
	lower := func() string { return vLower(1) }
	s := lower() + "/vendor/" + lower() + "/" + lower() + ".N"
	if withArg == 1 {
		s += "[" + lower() + "/vendor/" + lower() + ".X]"
	}
	path, expose := PkgImportPathAndExpose(s)
	r, err := gengotypes.ParseRef(s)
	verifsym.Assert(err == nil, "ParseRef rejects the reference")
	if err == nil {
		verifsym.Assert(path == ImportGoPath(r.Pkg().Path()), "PkgImportPathAndExpose and ParseRef disagree on the package path (modulo vendor trimming)")
		verifsym.Assert(expose == "N", "PkgImportPathAndExpose does not return the name in front of the argument list")
	}
	verifsym.Observe("path", path)
	verifsym.Observe("expose", expose)
	verifsym.Reach("end")
}
