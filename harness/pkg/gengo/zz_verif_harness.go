package gengo

import (
	"bytes"

	"github.com/octohelm/gengo/internal/verifsym"
)

// ---------------------------------------------------------------- C03: import block printing

func vLower(n int) string {
	b := make([]byte, n)
	for i := range b {
		c := verifsym.Byte()
		verifsym.Assume(c >= 'a' && c <= 'z')
		b[i] = c
	}
	return string(b)
}

// Verif_C03_WriteImports: the import block printed from a path->name map of k
// symbolic entries contains exactly one line per entry (in some order: the
// block is re-sorted by ast.SortImports afterwards, so order is deliberately
// not asserted), and nothing for an empty map.
func Verif_C03_WriteImports(k int) {
	m := map[string]string{}
	var paths, names []string
	for i := 0; i < k; i++ {
		p := vLower(2)
		for _, q := range paths {
			verifsym.Assume(p != q)
		}
		n := vLower(1)
		m[p] = n
		paths = append(paths, p)
		names = append(names, n)
	}
	w := bytes.NewBuffer(nil)
	writeImports(w, m)
	out := w.String()
	if k == 0 {
		verifsym.Assert(out == "", "empty import table prints something")
		verifsym.Reach("end")
		return
	}
	line := func(i int) string { return "\t" + names[i] + " \"" + paths[i] + "\"\n" }
	ok := false
	switch k {
	case 1:
		ok = out == "\nimport (\n"+line(0)+")\n"
	case 2:
		ok = out == "\nimport (\n"+line(0)+line(1)+")\n" || out == "\nimport (\n"+line(1)+line(0)+")\n"
	case 3:
		for a := 0; a < 3; a++ {
			for b := 0; b < 3; b++ {
				for c := 0; c < 3; c++ {
					if a != b && b != c && a != c && out == "\nimport (\n"+line(a)+line(b)+line(c)+")\n" {
						ok = true
					}
				}
			}
		}
	}
	verifsym.Assert(ok, "import block is not exactly one line per referenced package")
	verifsym.Observe("out", out)
	verifsym.Reach("end")
}
