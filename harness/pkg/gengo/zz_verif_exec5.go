package gengo

import (
	"go/types"

	"github.com/octohelm/gengo/internal/verifsym"
)

// ======================================================================
// Larger, sparse orchestration scenarios: several packages, several
// generators (names of very different length), several types per package.
// Almost everything is concrete; one (generator, package, type) position -
// chosen by a case split over every position - behaves symbolically. This
// trades the exhaustiveness of the small scenarios for reach: defects that
// need a third generator, a fourth package, a fifth type or a long name.
// ======================================================================

// vGenN: a generator whose name is data (instances via New keep it).
type vGenN struct {
	name   string
	seen   int
	helper bool
}

func (g *vGenN) Name() string { return g.name }

func (g *vGenN) New(c Context) Generator {
	vLog(g.name + ":new")
	return &vGenN{name: g.name}
}

func (g *vGenN) GenerateType(c Context, t *types.Named) error {
	return vDo(g.name, c, t.Obj().Pkg().Path(), t.Obj().Name(), &g.seen, &g.helper)
}

var vManyGenNames = []string{"g0", "generator1withaverylongnamemorethan32chars", "api.rec", "gen3", "g4", "gen5sixteenchars", "g6", "g7", "g8"}

// two packages are both named v1
var vManyPkgNames = []string{"p0", "apis/core/v1", "apis/batch/v1", "pkg3withalongdirectoryname", "p4", "p5", "p6", "p7", "p8", "p9", "p10", "p11"}
var vManyTypeNames = []string{"T0", "T1", "LongTypeNameNumberTwoWithManyLetters", "T3", "T4", "T5", "T6", "T7", "T8", "T9"}

type vMany struct {
	w      *vWorld
	gens   []string
	pkgs   []string
	tnames []string
	tags   map[string][]string
}

func vNewMany(npkg, ngen, ntype int) *vMany {
	verifsym.Assume(npkg >= 1 && npkg <= len(vManyPkgNames) && ngen >= 1 && ngen <= len(vManyGenNames) && ntype >= 1 && ntype <= len(vManyTypeNames))
	m := &vMany{w: vNewWorld(), gens: vManyGenNames[:ngen], pkgs: vManyPkgNames[:npkg], tnames: vManyTypeNames[:ntype], tags: map[string][]string{}}
	for _, g := range m.gens {
		m.tags["gengo:"+g] = []string{"true"}
	}
	return m
}

// build (re)creates the packages; every package has an old generated file per
// generator, a stale generated file of a generator that no longer exists and an
// unrelated file.
func (m *vMany) build(fresh bool) {
	w := m.w
	w.pkgs, w.local, w.sums = map[string]gengotypesPackage{}, map[string]bool{}, map[string]string{}
	for _, rel := range m.pkgs {
		names := []string{vBaseName(rel) + ".go"}
		if fresh {
			for _, g := range m.gens {
				names = append(names, vBase+"."+g+".go")
			}
			names = append(names, vBase+".gone.go", "notes.txt")
		}
		var specs []vTypeSpec
		// declared in reverse order so that sorting matters
		for i := len(m.tnames) - 1; i >= 0; i-- {
			specs = append(specs, vTypeSpec{name: m.tnames[i], tags: m.tags})
		}
		if fresh {
			w.addPkg(rel, true, "h1:"+rel, nil, names, specs)
		} else {
			saved := vGenNames
			vGenNames = m.gens
			w.addPkgNoFiles(rel, true, "h1:"+rel, specs)
			vGenNames = saved
		}
	}
}

func (m *vMany) generators() []Generator {
	var out []Generator
	for _, g := range m.gens {
		out = append(out, &vGenN{name: g})
	}
	return out
}

func (m *vMany) pkgPath(rel string) string { return m.w.mod.Path + "/" + rel }

// pick: one position of the (generator, package, type) grid by case split.
func (m *vMany) pick() (g, p, t int) {
	return verifsym.IntRange(0, len(m.gens)-1), verifsym.IntRange(0, len(m.pkgs)-1), verifsym.IntRange(0, len(m.tnames)-1)
}

// vDeclIndex: index of the declaration of variable <type>_<gen> in a file, -1 if
// absent (layout-insensitive: the formatter may group and align declarations).
func vDeclIndex(d, typ, gen string) int {
	name := typ + "_" + vIdent(gen)
	for i := 1; i+len(name) < len(d); i++ {
		if d[i:i+len(name)] == name && (d[i-1] == ' ' || d[i-1] == '\t') && d[i+len(name)] == ' ' {
			return i
		}
	}
	return -1
}

// Verif_C07_Many: every generator renders for every type, except that one grid
// position behaves symbolically (render / nothing / skip). Afterwards every
// package directory holds exactly: its source, the unrelated file, one generated
// file per generator that starts with the header naming that generator and holds
// the declarations of exactly the types that rendered; the
// stale file of the vanished generator is gone; gengo.sum lists every package.
func Verif_C07_Many(npkg, ngen, ntype int) {
	vReset()
	m := vNewMany(npkg, ngen, ntype)
	m.build(true)
	gi, pi, ti := m.pick()
	act := vAct(vActRender, vActNothing, vActSkip)
	vSet(m.gens[gi], m.pkgPath(m.pkgs[pi]), m.tnames[ti], act)
	before := vSnapshot()
	err := m.w.exec(true, true, nil, m.generators()...)
	verifsym.Assert(err == nil, "Execute fails although no generator failed")
	after := vSnapshot()

	// sorted type names (byte order)
	sorted := append([]string{}, m.tnames...)
	for i := range sorted {
		for j := i + 1; j < len(sorted); j++ {
			if sorted[j] < sorted[i] {
				sorted[i], sorted[j] = sorted[j], sorted[i]
			}
		}
	}
	expected := map[string]bool{m.w.root + "/gengo.sum": true}
	wantSum := ""
	for x, rel := range m.pkgs {
		dir := m.w.root + "/" + rel
		expected[dir+"/"+vBaseName(rel)+".go"] = true
		expected[dir+"/notes.txt"] = true
		verifsym.Assert(after[dir+"/"+vBaseName(rel)+".go"] == before[dir+"/"+vBaseName(rel)+".go"] && after[dir+"/notes.txt"] == before[dir+"/notes.txt"], "a file that is not a generated output was modified")
		_, stale := after[dir+"/"+vBase+".gone.go"]
		verifsym.Assert(!stale, "the generated file of a generator that no longer exists was not removed")
		for y, g := range m.gens {
			f := vGenFile(m.w, rel, g)
			expected[f] = true
			d, ok := after[f]
			verifsym.Assert(ok, "a generator rendered declarations but its file is missing")
			if !ok {
				continue
			}
			// the header is whatever precedes the package clause; its wording is not prescribed
			hdr := d
			for i := 0; i+9 <= len(d); i++ {
				if d[i:i+9] == "\npackage " {
					hdr = d[:i]
					break
				}
			}
			verifsym.Assert(vHasSub(hdr, g), "a generated file does not name its generator in the header")
			for _, tn := range sorted {
				idx := vDeclIndex(d, tn, g)
				rendered := !(x == pi && y == gi && tn == m.tnames[ti] && act != vActRender)
				if rendered {
					// (in which order the declarations appear is not prescribed by any property)
					verifsym.Assert(idx >= 0, "a rendered declaration is missing from the generator's file")
				} else {
					verifsym.Assert(idx < 0, "a declaration appears although the generator rendered nothing for the type")
				}
			}
			// no declaration of another generator leaked into this file
			for y2, g2 := range m.gens {
				if y2 != y {
					verifsym.Assert(vDeclIndex(d, sorted[0], g2) < 0, "a generator's file contains another generator's declarations")
				}
			}
		}
	}
	// sum: sorted package paths
	paths := []string{}
	for _, rel := range m.pkgs {
		paths = append(paths, m.pkgPath(rel))
	}
	for i := range paths {
		for j := i + 1; j < len(paths); j++ {
			if paths[j] < paths[i] {
				paths[i], paths[j] = paths[j], paths[i]
			}
		}
	}
	for _, p := range paths {
		wantSum += p + " h1:" + p[len(m.w.mod.Path)+1:] + "\n"
	}
	verifsym.Assert(after[m.w.root+"/gengo.sum"] == wantSum, "gengo.sum is not exactly the sorted current hashes of all packages")
	for f := range after {
		verifsym.Assert(expected[f], "a file appeared that is not an output of a registered generator")
	}
	verifsym.Observe("nfiles", len(after))
	verifsym.Reach("end")
}

// Verif_C02_ManyFault: as above, but the symbolic position fails (error,
// deferred error, unparseable rendering): Execute returns an error that names
// the generator and the package (or is the parser's error list), that
// generator's old file in that package is byte-identical, and gengo.sum is
// untouched.
func Verif_C02_ManyFault(npkg, ngen, ntype int) {
	vReset()
	m := vNewMany(npkg, ngen, ntype)
	m.build(true)
	gi, pi, ti := m.pick()
	act := vAct(vActError, vActDeferErr, vActBadSyntax)
	vSet(m.gens[gi], m.pkgPath(m.pkgs[pi]), m.tnames[ti], act)
	sumPath := m.w.root + "/gengo.sum"
	verifsym.FSPut(sumPath, "example.com/m/p0 h1:old\n")
	before := vSnapshot()
	err := m.w.exec(true, true, nil, m.generators()...)
	after := vSnapshot()
	verifsym.Assert(err != nil, "a generator failed (or rendered unparseable text) but Execute returned nil")
	if err != nil && act != vActBadSyntax {
		msg := err.Error()
		verifsym.Assert(vHasSub(msg, m.gens[gi]) && vHasSub(msg, m.pkgPath(m.pkgs[pi])), "the returned error does not name the failing generator and package")
	}
	f := vGenFile(m.w, m.pkgs[pi], m.gens[gi])
	verifsym.Assert(after[f] == before[f], "the previous output of the failing generator was modified or removed")
	verifsym.Assert(after[sumPath] == before[sumPath], "gengo.sum rewritten although the run failed")
	verifsym.Reach("end")
}

// Verif_C06_ManyDispatch: every type is enabled for every generator except one
// grid position whose declaration tag says false: GenerateType is called exactly
// once per enabled (generator, package, type) and never for the disabled one;
// one instance per (generator, package).
func Verif_C06_ManyDispatch(npkg, ngen, ntype int) {
	vReset()
	m := vNewMany(npkg, ngen, ntype)
	gi, pi, ti := m.pick()
	// rebuild the tags of the chosen type: generator gi disabled on the declaration
	m.build(true)
	off := map[string][]string{}
	for k, v := range m.tags {
		off[k] = v
	}
	off["gengo:"+m.gens[gi]] = []string{"false"}
	p := m.w.pkgs[m.pkgPath(m.pkgs[pi])].(*vPkg)
	p.docs[p.typeObjs[m.tnames[ti]].Pos()] = off
	err := m.w.exec(true, true, nil, m.generators()...)
	verifsym.Assert(err == nil, "Execute fails")
	for x, rel := range m.pkgs {
		for y, g := range m.gens {
			news := 0
			for _, l := range vState.log {
				if l == g+":new" {
					news++
				}
			}
			verifsym.Assert(news == len(m.pkgs), "not exactly one generator instance per (generator, package)")
			for z, tn := range m.tnames {
				calls := 0
				prefix := g + ":gen:" + m.pkgPath(rel) + "." + tn + ":"
				for _, l := range vState.log {
					if vHasPrefix(l, prefix) {
						calls++
					}
				}
				if x == pi && y == gi && z == ti {
					verifsym.Assert(calls == 0, "GenerateType called for a type whose declaration disables the generator")
				} else {
					verifsym.Assert(calls == 1, "GenerateType not called exactly once for an enabled (generator, type)")
				}
			}
		}
	}
	verifsym.Reach("end")
}

// Verif_C05_ManyAlone: the files written for one package (case split over the
// packages) are the same whether it is generated alone or together with all
// the others.
func Verif_C05_ManyAlone(npkg, ngen, ntype int) {
	vReset()
	m := vNewMany(npkg, ngen, ntype)
	m.build(true)
	err := m.w.exec(true, true, nil, m.generators()...)
	verifsym.Assert(err == nil, "Execute fails")
	together := vSnapshot()

	pi := verifsym.IntRange(0, npkg-1)
	vReset()
	alone := vNewMany(npkg, ngen, ntype)
	alone.w = vNewWorldAt("alone")
	alone.pkgs = []string{m.pkgs[pi]}
	alone.build(true)
	err = alone.w.exec(true, true, nil, alone.generators()...)
	verifsym.Assert(err == nil, "Execute fails for the package alone")
	single := vSnapshot()
	for _, g := range m.gens {
		a, okA := single[vGenFile(alone.w, m.pkgs[pi], g)]
		b, okB := together[vGenFile(m.w, m.pkgs[pi], g)]
		verifsym.Assert(okA && okB, "generated file missing")
		verifsym.Assert(a == b, "a package's generated file differs depending on which other packages are generated in the same run")
	}
	verifsym.Reach("end")
}

// Verif_C07_ManyTwice: everything renders; the run is repeated on its own result
// (forced, then unforced): every generated file is still there with the same
// bytes, nothing else appears.
func Verif_C07_ManyTwice(npkg, ngen, ntype int) {
	vReset()
	m := vNewMany(npkg, ngen, ntype)
	m.build(true)
	err := m.w.exec(true, true, nil, m.generators()...)
	verifsym.Assert(err == nil, "Execute fails")
	first := vSnapshot()
	for _, rel := range m.pkgs {
		for _, g := range m.gens {
			_, ok := first[vGenFile(m.w, rel, g)]
			verifsym.Assert(ok, "a generator rendered declarations but its file is missing")
		}
	}
	for run := 0; run < 2; run++ {
		vReset()
		m.build(false)
		// the loader sees the generated files of the previous run as files of the package
		err = m.w.exec(true, run == 0, nil, m.generators()...)
		verifsym.Assert(err == nil, "a later run fails")
		again := vSnapshot()
		for f, d := range first {
			d2, ok := again[f]
			verifsym.Assert(ok, "a file written by a run is gone after running again on the result")
			verifsym.Assert(!ok || d2 == d, "running again on the result changed a file")
		}
		for f := range again {
			_, had := first[f]
			verifsym.Assert(had, "running again on the result created a new file")
		}
	}
	verifsym.Reach("end")
}

// vGenHuge renders kb KiB of comment lines and then, symbolically, either a
// valid declaration or text that is not parseable Go.
type vGenHuge struct {
	kb  int
	bad bool
}

func (g *vGenHuge) Name() string { return "huge" }

func (g *vGenHuge) New(c Context) Generator { return &vGenHuge{kb: g.kb, bad: g.bad} }

func (g *vGenHuge) GenerateType(c Context, t *types.Named) error {
	line := "// 0123456789abcdef0123456789abcdef0123456789abcdef0123456789a\n" // 64 bytes
	block := ""
	for i := 0; i < 16; i++ {
		block += line
	}
	// 1 KiB per block
	for i := 0; i < g.kb; i++ {
		c.Render(snippetBlock(block))
	}
	if g.bad {
		c.Render(snippetBlock("\nvar !!SYNTAX!! = }{\n"))
	} else {
		c.Render(snippetBlock("\nvar ok_huge = 1\n"))
	}
	return nil
}

// Verif_C02_HugeBody(kb): a generator whose rendering is kb KiB long and,
// symbolically, ends in unparseable text: Execute then returns an error, the old
// file is byte-identical and gengo.sum untouched; otherwise the file is written.
func Verif_C02_HugeBody(kb int) {
	vReset()
	w := vNewWorld()
	w.addPkg("p", true, "h1:new-p", nil, []string{"p.go", vBase + ".huge.go"}, []vTypeSpec{{name: "A", tags: map[string][]string{"gengo:huge": {"true"}}}})
	sumPath := w.root + "/gengo.sum"
	verifsym.FSPut(sumPath, "example.com/m/p h1:old\n")
	before := vSnapshot()
	bad := verifsym.Bool()
	err := w.exec(true, true, nil, &vGenHuge{kb: kb, bad: bad})
	after := vSnapshot()
	f := vGenFile(w, "p", "huge")
	if bad {
		verifsym.Assert(err != nil, "a generator rendered unparseable text but Execute returned nil")
		verifsym.Assert(after[f] == before[f], "the previous output of the failing generator was modified or removed")
		verifsym.Assert(after[sumPath] == before[sumPath], "gengo.sum rewritten although the run failed")
	} else {
		verifsym.Assert(err == nil, "Execute fails although no generator failed")
		d := after[f]
		if len(d) > 40 {
			d = d[len(d)-40:]
		}
		verifsym.Assert(vHasSub(d, "ok_huge"), "a rendered declaration is missing from the generator's file")
	}
	verifsym.Reach("end")
}

// Verif_C02_RecoverAfterFailure: a run in which one (generator, type) fails
// (error / deferred error / unparseable text, every position by case split) is
// followed, in the same process and module, by a run in which everything
// renders. The second run must succeed and leave exactly the files that the
// same all-render run leaves in a fresh module: nothing of the failed run
// (buffers, import tables, instances) may survive into the next one.
func Verif_C02_RecoverAfterFailure() {
	pp, qp := "example.com/m/p", "example.com/m/q"
	types := []vTypeSpec{{name: "A", tags: vBoth}, {name: "B", tags: vBoth}}
	qTypes := []vTypeSpec{{name: "T", tags: vBoth}}
	allRender := func() {
		vReset()
		for _, g := range []string{"ga", "gb"} {
			vSet(g, pp, "A", vActRender)
			vSet(g, pp, "B", vActRender)
			vSet(g, qp, "T", vActRender)
		}
	}
	// reference: the all-render run in a fresh module
	allRender()
	ref := vNewWorldAt("ref")
	ref.addPkgNoFiles("p", true, "h1:p", types)
	ref.addPkgNoFiles("q", true, "h1:q", qTypes)
	verifsym.Assert(ref.exec(true, true, nil, vProtoA(), &vGenB{}) == nil, "Execute fails")
	refFiles := map[string]string{}
	for f, d := range vSnapshot() {
		if vHasPrefix(f, ref.root+"/") {
			refFiles[f[len(ref.root):]] = d
		}
	}

	// run 1: one position fails
	allRender()
	gens := []string{"ga", "gb"}
	pos := [][2]string{{pp, "A"}, {pp, "B"}, {qp, "T"}}
	g := gens[verifsym.IntRange(0, 1)]
	at := pos[verifsym.IntRange(0, 2)]
	vSet(g, at[0], at[1], vAct(vActError, vActDeferErr, vActBadSyntax))
	w := vNewWorld()
	w.addPkgNoFiles("p", true, "h1:p", types)
	w.addPkgNoFiles("q", true, "h1:q", qTypes)
	verifsym.Assert(w.exec(true, true, nil, vProtoA(), &vGenB{}) != nil, "a generator failed (or rendered unparseable text) but Execute returned nil")

	// run 2: everything renders
	allRender()
	w.pkgs, w.local, w.sums = map[string]gengotypesPackage{}, map[string]bool{}, map[string]string{}
	w.addPkgNoFiles("p", true, "h1:p", types)
	w.addPkgNoFiles("q", true, "h1:q", qTypes)
	verifsym.Assert(w.exec(true, true, nil, vProtoA(), &vGenB{}) == nil, "the run after a failed run fails")
	got := map[string]string{}
	for f, d := range vSnapshot() {
		if vHasPrefix(f, w.root+"/") {
			got[f[len(w.root):]] = d
		}
	}
	for f, d := range refFiles {
		d2, ok := got[f]
		verifsym.Assert(ok, "a file is missing after the run that followed a failed run")
		verifsym.Assert(!ok || d2 == d, "the run after a failed run writes other content than the same run in a fresh module (state of the failed run survived)")
	}
	for f := range got {
		_, ok := refFiles[f]
		verifsym.Assert(ok, "the run after a failed run leaves a file the same run in a fresh module does not write")
	}
	verifsym.Reach("end")
}
