package gengo

import (
	"errors"
	"go/ast"
	"go/token"
	"go/types"
	"reflect"
	"sync"
	"unsafe"

	"github.com/go-courier/logr"
	gengotypes "github.com/octohelm/gengo/pkg/types"
	"golang.org/x/tools/go/packages"

	"github.com/octohelm/gengo/internal/verifsym"
)

// ======================================================================
// Orchestration harness (Tier 2): the real Execute / pkgExecute / doGenerate /
// genfile code runs over harness-made packages (real go/types objects, real
// token.FileSet), harness generators with symbolic behaviour, and a filesystem
// that is the in-engine model under gosym and a real temporary directory
// natively.
// ======================================================================

const vBase = "zz_generated"

// ---- behaviour of the harness generators, chosen per (generator, package, type)

const (
	vActRender      = iota // render a declaration
	vActNothing            // render nothing, return nil
	vActSkip               // return ErrSkip (wrapped)
	vActIgnore             // return ErrIgnore (wrapped), render nothing
	vActError              // return some other error
	vActDeferOK            // register a deferred callback that renders
	vActDeferErr           // register a deferred callback that fails
	vActBadSyntax          // render text that is not parseable Go
	vActPanic              // the generator panics (the process dies part-way through the run)
	vActDeferNested        // register a deferred callback that renders and itself registers another one
	vActDeferTree          // register a callback that renders and registers vState.kids[id] further ones, recursively
	vNumActs
)

var vErrBoom = errors.New("boom")

var vState struct {
	kids map[string]int // callback id -> number of callbacks it registers while it runs (vActDeferTree)
	act  map[string]int // gen|pkg|type -> action
	log  []string       // call log
	inst int            // generator instances created
}

func vReset() {
	vState.act = map[string]int{}
	vState.kids = map[string]int{}
	vState.log = nil
	vState.inst = 0
}

func vLog(s string) { vState.log = append(vState.log, s) }

func vItoa(n int) string {
	if n == 0 {
		return "0"
	}
	s := ""
	for n > 0 {
		s = string([]byte{'0' + byte(n%10)}) + s
		n /= 10
	}
	return s
}

// vDo performs the configured action of generator gen for a type; seen/helper
// are the per-instance state of the calling generator.
func vDo(gen string, c Context, pkgPath, typeName string, seen *int, helper *bool) error {
	*seen++
	act := vState.act[gen+"|"+pkgPath+"|"+typeName]
	vLog(gen + ":gen:" + pkgPath + "." + typeName + ":act=" + vItoa(act) + ":seen=" + vItoa(*seen))
	genName := gen
	gen = vIdent(gen) // below, gen is only used inside identifiers
	render := func() {
		if !*helper {
			*helper = true
			c.RenderT("\nfunc helper_@gen() {}\n", snippetArg("gen", gen))
		}
		c.RenderT("\nvar @name'_@gen = @n\n", snippetArg("name", typeName), snippetArg("gen", gen), snippetArg("n", vItoa(*seen)))
		// a reference into another package, so that the per-generator import table matters:
		// two packages with the same last segment, referenced in opposite order by ga and gb
		ref := "example.com/x/util"
		if (genName == "ga") != (typeName == "A") {
			ref = "example.com/y/util"
		}
		c.RenderT("\nvar ref_@name'_@gen @ref\n", snippetArg("name", typeName), snippetArg("gen", gen), snippetPkgExpose("ref", ref, "T"))
	}
	switch act {
	case vActRender:
		render()
	case vActNothing:
	case vActSkip:
		return errWrap(ErrSkip)
	case vActIgnore:
		return errWrap(ErrIgnore)
	case vActError:
		return vErrBoom
	case vActDeferOK:
		c.Defer(func(c Context) error {
			vLog(genName + ":defer:" + pkgPath + "." + typeName)
			c.RenderT("\nvar deferred_@name'_@gen = 1\n", snippetArg("name", typeName), snippetArg("gen", gen))
			return nil
		})
	case vActDeferNested:
		c.Defer(func(c Context) error {
			vLog(genName + ":defer:" + pkgPath + "." + typeName)
			c.RenderT("\nvar deferred_@name'_@gen = 1\n", snippetArg("name", typeName), snippetArg("gen", gen))
			c.Defer(func(c Context) error {
				vLog(genName + ":defer2:" + pkgPath + "." + typeName)
				c.RenderT("\nvar nested_@name'_@gen = 1\n", snippetArg("name", typeName), snippetArg("gen", gen))
				return nil
			})
			return nil
		})
	case vActDeferTree:
		var mk func(id string) func(c Context) error
		mk = func(id string) func(c Context) error {
			return func(c Context) error {
				vLog(genName + ":cb:" + id)
				c.RenderT("\nvar cb_@id'_@gen = 1\n", snippetArg("id", id), snippetArg("gen", gen))
				for i := 0; i < vState.kids[id]; i++ {
					c.Defer(mk(id + "_" + vItoa(i)))
				}
				return nil
			}
		}
		c.Defer(mk(typeName))
	case vActDeferErr:
		c.Defer(func(c Context) error {
			vLog(genName + ":defer:" + pkgPath + "." + typeName)
			return vErrBoom
		})
	case vActBadSyntax:
		c.RenderT("\nvar !!SYNTAX!! = }{\n")
	case vActPanic:
		panic("generator bug: the run dies here")
	}
	return nil
}

// ---- generator ga: no New (instances made by reflection), per-instance state

type vGenA struct {
	seen   int
	helper bool
	// done: "already processed" set. The registered prototype carries a non-nil
	// (empty) map, as a generator registered with options would; an instance made
	// for a package must not share it.
	done map[string]bool
}

// vProtoA is the prototype of ga that gets registered with Execute.
func vProtoA() *vGenA { return &vGenA{done: map[string]bool{}} }

func (*vGenA) Name() string { return "ga" }

func (g *vGenA) GenerateType(c Context, t *types.Named) error {
	if g.done == nil {
		g.done = map[string]bool{}
	}
	g.done[t.Obj().Pkg().Path()+"."+t.Obj().Name()] = true
	n := 0
	for range g.done {
		n++
	}
	vLog("ga:done=" + vItoa(n) + ":" + t.Obj().Pkg().Path() + "." + t.Obj().Name())
	return vDo("ga", c, t.Obj().Pkg().Path(), t.Obj().Name(), &g.seen, &g.helper)
}

// ---- generator gb: custom New, also an AliasGenerator

type vGenB struct {
	seen   int
	helper bool
}

func (*vGenB) Name() string { return "gb" }

func (g *vGenB) New(c Context) Generator {
	vState.inst++
	vLog("gb:new")
	return &vGenB{}
}

func (g *vGenB) GenerateType(c Context, t *types.Named) error {
	return vDo("gb", c, t.Obj().Pkg().Path(), t.Obj().Name(), &g.seen, &g.helper)
}

func (g *vGenB) GenerateAliasType(c Context, t *types.Alias) error {
	return vDo("gb", c, t.Obj().Pkg().Path(), "alias_"+t.Obj().Name(), &g.seen, &g.helper)
}

// ---- harness packages

type vTypeSpec struct {
	name  string
	alias bool
	tags  map[string][]string // declaration doc tags
}

type vPkg struct {
	path, name, dir string
	tpkg            *types.Package
	fset            *token.FileSet
	files           []*ast.File
	mod             *packages.Module
	typeObjs        map[string]*types.TypeName
	docs            map[token.Pos]map[string][]string
}

// vFileDocs: package doc tag lines of files other than the first (file name -> lines).
var vFileDocs map[string][]string

func vNewPkg(fset *token.FileSet, mod *packages.Module, path, name, dir string, pkgDocTags []string, fileNames []string, specs []vTypeSpec) *vPkg {
	p := &vPkg{path: path, name: name, dir: dir, fset: fset, mod: mod,
		tpkg: types.NewPackage(path, name), typeObjs: map[string]*types.TypeName{}, docs: map[token.Pos]map[string][]string{}}
	var firstBase int
	for i, fn := range fileNames {
		tf := fset.AddFile(dir+"/"+fn, -1, 1000)
		if i == 0 {
			firstBase = tf.Base()
		}
		f := &ast.File{FileStart: token.Pos(tf.Base()), FileEnd: token.Pos(tf.Base() + 1000), Name: ast.NewIdent(name)}
		docLines := vFileDocs[fn]
		if i == 0 && len(pkgDocTags) > 0 {
			docLines = pkgDocTags
		}
		if len(docLines) > 0 {
			var list []*ast.Comment
			for _, t := range docLines {
				list = append(list, &ast.Comment{Text: "// " + t})
			}
			f.Doc = &ast.CommentGroup{List: list}
		}
		p.files = append(p.files, f)
	}
	for i, s := range specs {
		pos := token.Pos(firstBase + 10 + i)
		obj := types.NewTypeName(pos, p.tpkg, s.name, nil)
		if s.alias {
			types.NewAlias(obj, types.Typ[types.Int])
		} else {
			types.NewNamed(obj, types.Typ[types.Int], nil)
		}
		p.typeObjs[s.name] = obj
		p.docs[pos] = s.tags
	}
	return p
}

func (p *vPkg) Pkg() *types.Package                    { return p.tpkg }
func (p *vPkg) Imports() map[string]gengotypes.Package { return nil }
func (p *vPkg) Module() *packages.Module               { return p.mod }
func (p *vPkg) SourceDir() string                      { return p.dir }
func (p *vPkg) FileSet() *token.FileSet                { return p.fset }
func (p *vPkg) Files() []*ast.File                     { return p.files }
func (p *vPkg) Decl(pos token.Pos) ast.Decl            { return nil }
func (p *vPkg) Doc(pos token.Pos) (map[string][]string, []string) {
	return p.docs[pos], nil
}
func (p *vPkg) Comment(pos token.Pos) []string                          { return nil }
func (p *vPkg) Eval(expr ast.Expr) (types.TypeAndValue, error)          { return types.TypeAndValue{}, nil }
func (p *vPkg) Constant(name string) *types.Const                       { return nil }
func (p *vPkg) Constants() map[string]*types.Const                      { return nil }
func (p *vPkg) Type(name string) *types.TypeName                        { return p.typeObjs[name] }
func (p *vPkg) Types() map[string]*types.TypeName                       { return p.typeObjs }
func (p *vPkg) Function(name string) *types.Func                        { return nil }
func (p *vPkg) Functions() map[string]*types.Func                       { return nil }
func (p *vPkg) MethodsOf(n *types.Named, canPtr bool) []*types.Func     { return nil }
func (p *vPkg) ResultsOf(tpe *types.Func) (gengotypes.FuncResults, int) { return nil, 0 }
func (p *vPkg) Position(pos token.Pos) token.Position                   { return p.fset.Position(pos) }
func (p *vPkg) ObjectOf(id *ast.Ident) types.Object                     { return nil }

// ---- a run

type vWorld struct {
	root  string
	fset  *token.FileSet
	mod   *packages.Module
	pkgs  map[string]gengotypes.Package
	local map[string]bool
	sums  map[string]string
}

func vNewWorld() *vWorld { return vNewWorldAt("m") }

func vNewWorldAt(sub string) *vWorld {
	root := verifsym.FSRoot() + "/" + sub
	verifsym.FSMkdir(root)
	return &vWorld{root: root, fset: token.NewFileSet(),
		mod:  &packages.Module{Path: "example.com/m", Dir: root, GoVersion: "1.24"},
		pkgs: map[string]gengotypes.Package{}, local: map[string]bool{}, sums: map[string]string{}}
}

// vBaseName: last segment of a relative package path (the package's name).
func vBaseName(rel string) string {
	for i := len(rel) - 1; i >= 0; i-- {
		if rel[i] == '/' {
			return rel[i+1:]
		}
	}
	return rel
}

// vIdent: a generator name as part of a Go identifier (a name may contain dots).
func vIdent(gen string) string {
	b := []byte(gen)
	for i := range b {
		if b[i] == '.' {
			b[i] = '_'
		}
	}
	return string(b)
}

// addPkg adds package example.com/m/<rel> with the given pre-existing files
// (written to the filesystem too) and types.
func (w *vWorld) addPkg(rel string, direct bool, sum string, pkgDocTags []string, fileNames []string, specs []vTypeSpec) *vPkg {
	path := w.mod.Path + "/" + rel
	dir := w.root + "/" + rel
	verifsym.FSMkdir(dir)
	for _, fn := range fileNames {
		verifsym.FSPut(dir+"/"+fn, "package "+vBaseName(rel)+"\n\n// "+fn+"\n")
	}
	p := vNewPkg(w.fset, w.mod, path, vBaseName(rel), dir, pkgDocTags, fileNames, specs)
	w.pkgs[path] = p
	w.local[path] = direct
	w.sums[path] = sum
	return p
}

// addPkgNoFiles adds a package whose only pre-existing file is its source file
// (left alone if already there from an earlier run of the same history).
// vGenNames: the generators whose earlier outputs addPkgNoFiles looks for.
var vGenNames = []string{"ga", "gb"}

func (w *vWorld) addPkgNoFiles(rel string, direct bool, sum string, specs []vTypeSpec) *vPkg {
	path := w.mod.Path + "/" + rel
	dir := w.root + "/" + rel
	base := vBaseName(rel)
	verifsym.FSMkdir(dir)
	if _, ok := verifsym.FSGet(dir + "/" + base + ".go"); !ok {
		verifsym.FSPut(dir+"/"+base+".go", "package "+base+"\n")
	}
	// files known to the loader: the source file(s) plus generated files already on disk
	names := []string{base + ".go"}
	for extra := range vFileDocs {
		if vHasPrefix(extra, base+"_") {
			names = append(names, extra)
			verifsym.FSPut(dir+"/"+extra, "package "+base+"\n")
		}
	}
	for _, g := range vGenNames {
		if _, ok := verifsym.FSGet(dir + "/" + vBase + "." + g + ".go"); ok {
			names = append(names, vBase+"."+g+".go")
		}
	}
	p := vNewPkg(w.fset, w.mod, path, base, dir, nil, names, specs)
	w.pkgs[path] = p
	w.local[path] = direct
	w.sums[path] = sum
	return p
}

type gengotypesPackage = gengotypes.Package

func (w *vWorld) exec(all, force bool, globals map[string][]string, gens ...Generator) error {
	u := gengotypes.VerifNewUniverse(w.fset, w.pkgs, w.local, w.sums, w.root)
	c := vNewCtx()
	c.universe = u
	c.args = &GeneratorArgs{Globals: globals, OutputFileBaseName: vBase, All: all, Force: force}
	c.l = logr.Discard()
	return c.Execute(vBackground(), gens...)
}

// vNewCtx: a root context made by the real constructor NewContext (so that
// whatever the constructor initialises is there), whose universe, arguments and
// logger the caller then replaces by the scenario's. Under the engine
// NewContext runs on every call with packages.Load returning no package;
// natively the real NewContext loads a small package of the repository once
// per process, and every call gets a copy of that context in which
// constructor-made maps and slices are fresh (empty) ones.
func vNewCtx() *gengoCtx {
	if verifsym.Symbolic() {
		verifsym.Provide("packages.Load", []*packages.Package{})
		ex, err := NewContext(&GeneratorArgs{Entrypoint: []string{"example.com/none"}})
		if err != nil {
			panic("harness: NewContext failed: " + err.Error())
		}
		return ex.(*gengoCtx)
	}
	vProtoOnce.Do(func() {
		ex, err := NewContext(&GeneratorArgs{Entrypoint: []string{"github.com/octohelm/gengo/pkg/sumfile"}})
		if err != nil {
			panic("harness: NewContext failed: " + err.Error())
		}
		vProtoCtx = ex.(*gengoCtx)
	})
	c := *vProtoCtx
	rv := reflect.ValueOf(&c).Elem()
	for i := 0; i < rv.NumField(); i++ {
		f := rv.Field(i)
		f = reflect.NewAt(f.Type(), unsafe.Pointer(f.UnsafeAddr())).Elem()
		switch f.Kind() {
		case reflect.Map:
			if !f.IsNil() {
				f.Set(reflect.MakeMap(f.Type()))
			}
		case reflect.Slice:
			if !f.IsNil() {
				f.Set(reflect.MakeSlice(f.Type(), 0, 0))
			}
		}
	}
	return &c
}

var (
	vProtoOnce sync.Once
	vProtoCtx  *gengoCtx
)

func vEnabled(gen string) map[string][]string {
	return map[string][]string{"gengo:" + gen: {"true"}}
}

// Verif_T2_Smoke: one package, one type, generator ga renders: file appears.
func Verif_T2_Smoke() {
	vReset()
	w := vNewWorld()
	w.addPkg("p", true, "h1:p", nil, []string{"p.go"}, []vTypeSpec{{name: "T", tags: vEnabled("ga")}})
	err := w.exec(false, false, nil, vProtoA())
	verifsym.Assert(err == nil, "Execute fails on a trivial package")
	_, ok := verifsym.FSGet(w.root + "/p/" + vBase + ".ga.go")
	verifsym.Assert(ok, "generated file missing")
	verifsym.Observe("log", vState.log)
	verifsym.Reach("end")
}
