package gengo

var verifHarnesses = map[string]any{
	"Verif_C03_WriteImports":    Verif_C03_WriteImports,
	"Verif_C06_Enabled":         Verif_C06_Enabled,
	"Verif_C06_Merge":           Verif_C06_Merge,
	"Verif_C15_ExposeVendor":    Verif_C15_ExposeVendor,
	"Verif_C15_Expose":          Verif_C15_Expose,
	"Verif_T2_Smoke":            Verif_T2_Smoke,
	"Verif_C02_Faults":          Verif_C02_Faults,
	"Verif_C02_IOFaults":        Verif_C02_IOFaults,
	"Verif_C07_EffectsNames":    Verif_C07_EffectsNames,
	"Verif_C07_Effects":         Verif_C07_Effects,
	"Verif_C05_AloneVsThree":    Verif_C05_AloneVsThree,
	"Verif_C05_AloneVsTogether": Verif_C05_AloneVsTogether,
	"Verif_C06_Dispatch":        Verif_C06_Dispatch,
	"Verif_C08_History":         Verif_C08_History,
	"Verif_C04_Deterministic":   Verif_C04_Deterministic,
	"Verif_C07_Many":            Verif_C07_Many,
	"Verif_C07_ManyTwice":       Verif_C07_ManyTwice,
	"Verif_C02_ManyFault":       Verif_C02_ManyFault,
	"Verif_C06_ManyDispatch":    Verif_C06_ManyDispatch,
	"Verif_C05_ManyAlone":       Verif_C05_ManyAlone,
}
