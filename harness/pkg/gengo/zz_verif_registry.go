package gengo

var verifHarnesses = map[string]any{
	"Verif_C03_WriteImports": Verif_C03_WriteImports,
}
