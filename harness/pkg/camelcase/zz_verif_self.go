// This file holds harnesses that validate the engine itself
// (run by `gosym selftest`), not properties of gengo.
package camelcase

import (
	"strings"
	"unicode/utf8"

	"github.com/octohelm/gengo/internal/verifsym"
)

// Verif_Self_UTF8RoundTrip: for every valid UTF-8 string of n bytes,
// re-encoding the decoded runes gives back the same bytes. Run with the
// engine's rune-provenance shortcut disabled, it is the lemma that justifies
// that shortcut.
func Verif_Self_UTF8RoundTrip(n int) {
	s := verifsym.String(n)
	verifsym.Assume(utf8.ValidString(s))
	out := ""
	for _, r := range s {
		out += string(r)
	}
	verifsym.Assert(out == s, "encode(decode(s)) != s")
	verifsym.Observe("out", out)
	verifsym.Reach("end")
}

// Verif_Self_Strings exercises the string intrinsics against their
// specification written with plain loops.
func Verif_Self_Strings(n int) {
	s := verifsym.String(n)
	c := verifsym.Byte()
	i := strings.IndexByte(s, c)
	want := -1
	for k := 0; k < len(s); k++ {
		if s[k] == c {
			want = k
			break
		}
	}
	verifsym.Assert(i == want, "IndexByte")
	j := strings.LastIndex(s, string([]byte{c}))
	want = -1
	for k := len(s) - 1; k >= 0; k-- {
		if s[k] == c {
			want = k
			break
		}
	}
	verifsym.Assert(j == want, "LastIndex")
	verifsym.Observe("i", i)
	verifsym.Observe("j", j)
	verifsym.Observe("lower", strings.ToLower(s))
	verifsym.Observe("upper", strings.ToUpper(s))
	verifsym.Observe("trim", strings.TrimSpace(s))
	verifsym.Observe("fields", strings.Fields(s))
	verifsym.Reach("end")
}
