package camelcase

import (
	"testing"

	"github.com/octohelm/gengo/internal/verifsym"
)

func TestVerifReplay(t *testing.T) {
	verifsym.RunReplay(t, map[string]any{
		"Verif_C19_SplitLossless":    Verif_C19_SplitLossless,
		"Verif_C19_ConvertersTotal":  Verif_C19_ConvertersTotal,
		"Verif_C19_SplitLong":        Verif_C19_SplitLong,
		"Verif_C19_ConverterHistory": Verif_C19_ConverterHistory,
		"Verif_C19_ConvertersLong":   Verif_C19_ConvertersLong,
		"Verif_Self_UTF8RoundTrip":   Verif_Self_UTF8RoundTrip,
		"Verif_Self_Strings":         Verif_Self_Strings,
	})
}
