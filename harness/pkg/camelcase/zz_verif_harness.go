package camelcase

import (
	"unicode/utf8"

	"github.com/octohelm/gengo/internal/verifsym"
)

// Verif_C19_SplitLossless: for every string of n bytes, Split does not panic,
// returns non-empty words whose concatenation is the input, and returns the
// whole string as one word when it is not valid UTF-8.
func Verif_C19_SplitLossless(n int) {
	s := verifsym.String(n)
	words := Split(s)
	cat := ""
	for _, w := range words {
		verifsym.Assert(len(w) > 0, "empty word")
		cat += w
	}
	verifsym.Assert(cat == s, "concatenation of words differs from input")
	if !utf8.ValidString(s) {
		verifsym.Assert(len(words) == 1, "invalid UTF-8 must come back as one word")
	}
	verifsym.Observe("words", words)
	verifsym.Reach("end")
}

var verifConverters = [...]func(string) string{
	LowerSnakeCase, UpperSnakeCase, LowerKebabCase, UpperKebabCase, LowerCamelCase, UpperCamelCase,
}

// Verif_C19_ConvertersTotal: converter number conv returns (no panic) for every
// string of n bytes, and returns the same text when called again.
func Verif_C19_ConvertersTotal(conv, n int) {
	s := verifsym.String(n)
	f := verifConverters[conv]
	out := f(s)
	again := f(s)
	verifsym.Assert(out == again, "converter is not a function of its input")
	verifsym.Reach("end")
}

// vFillers: the concrete filler bytes of the "long sparse" harnesses.
var vFillers = [...]byte{'a', 'Z', '7', '_'}

// Verif_C19_SplitLong: strings of n bytes (n up to 16) made of a concrete filler
// byte (lower-case letter, upper-case letter, digit or underscore, case split)
// except at two positions i < j (case split) which hold arbitrary symbolic
// bytes: same assertions as SplitLossless. Covers length-dependent behaviour
// beyond the exhaustive bound with a sparse symbolic input.
func Verif_C19_SplitLong(n int) {
	fill := vFillers[verifsym.IntRange(0, len(vFillers)-1)]
	i := verifsym.IntRange(0, n-2)
	j := verifsym.IntRange(i+1, n-1)
	b := make([]byte, n)
	for k := range b {
		b[k] = fill
	}
	b[i], b[j] = verifsym.Byte(), verifsym.Byte()
	s := string(b)
	words := Split(s)
	cat := ""
	for _, w := range words {
		verifsym.Assert(len(w) > 0, "empty word")
		cat += w
	}
	verifsym.Assert(cat == s, "concatenation of words differs from input")
	if !utf8.ValidString(s) {
		verifsym.Assert(len(words) == 1, "invalid UTF-8 must come back as one word")
	}
	verifsym.Observe("words", words)
	verifsym.Reach("end")
}

// Verif_C19_ConvertersLong: converter conv on inputs of `words` words of wlen
// bytes each (alternating lower-case and upper-case-initial words, so that
// Split finds that many words) with one arbitrary symbolic byte at a
// case-split position: returns, and returns the same text again.
func Verif_C19_ConvertersLong(conv, words, wlen int) {
	n := words * wlen
	b := make([]byte, n)
	for k := range b {
		if k%wlen == 0 {
			b[k] = 'A' + byte((k/wlen)%26)
		} else {
			b[k] = 'a' + byte(k%26)
		}
	}
	b[verifsym.IntRange(0, n-1)] = verifsym.Byte()
	s := string(b)
	f := verifConverters[conv]
	out := f(s)
	again := f(s)
	verifsym.Assert(out == again, "converter is not a function of its input")
	verifsym.Reach("end")
}
