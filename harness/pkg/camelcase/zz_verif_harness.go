package camelcase

import (
	"unicode/utf8"

	"github.com/octohelm/gengo/internal/verifsym"
)

// Verif_C19_SplitLossless: for every string of n bytes, Split does not panic,
// returns non-empty words whose concatenation is the input, and returns the
// whole string as one word when it is not valid UTF-8.
func Verif_C19_SplitLossless(n int) {
	s := verifsym.String(n)
	words := Split(s)
	cat := ""
	for _, w := range words {
		verifsym.Assert(len(w) > 0, "empty word")
		cat += w
	}
	verifsym.Assert(cat == s, "concatenation of words differs from input")
	if !utf8.ValidString(s) {
		verifsym.Assert(len(words) == 1, "invalid UTF-8 must come back as one word")
	}
	verifsym.Observe("words", words)
	verifsym.Reach("end")
}

var verifConverters = [...]func(string) string{
	LowerSnakeCase, UpperSnakeCase, LowerKebabCase, UpperKebabCase, LowerCamelCase, UpperCamelCase,
}

// Verif_C19_ConvertersTotal: converter number conv returns (no panic) for every
// string of n bytes, and returns the same text when called again.
func Verif_C19_ConvertersTotal(conv, n int) {
	s := verifsym.String(n)
	f := verifConverters[conv]
	out := f(s)
	again := f(s)
	verifsym.Assert(out == again, "converter is not a function of its input")
	verifsym.Reach("end")
}
