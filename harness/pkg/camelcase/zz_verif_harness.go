package camelcase

import (
	"unicode/utf8"

	"github.com/octohelm/gengo/internal/verifsym"
)

// Verif_C19_SplitLossless: for every string of n bytes, Split does not panic,
// returns non-empty words whose concatenation is the input, and returns the
// whole string as one word when it is not valid UTF-8.
func Verif_C19_SplitLossless(n int) {
	s := verifsym.String(n)
	words := Split(s)
	cat := ""
	for _, w := range words {
		verifsym.Assert(len(w) > 0, "empty word")
		cat += w
	}
	verifsym.Assert(cat == s, "concatenation of words differs from input")
	if !utf8.ValidString(s) {
		verifsym.Assert(len(words) == 1, "invalid UTF-8 must come back as one word")
	}
	verifsym.Observe("words", words)
	verifsym.Reach("end")
}

var verifConverters = [...]func(string) string{
	LowerSnakeCase, UpperSnakeCase, LowerKebabCase, UpperKebabCase, LowerCamelCase, UpperCamelCase,
}

// Verif_C19_ConvertersTotal: converter number conv returns (no panic) for every
// string of n bytes, and returns the same text when called again.
func Verif_C19_ConvertersTotal(conv, n int) {
	s := verifsym.String(n)
	f := verifConverters[conv]
	out := f(s)
	again := f(s)
	verifsym.Assert(out == again, "converter is not a function of its input")
	verifsym.Reach("end")
}

// vFillers: the concrete filler bytes of the "long sparse" harnesses.
var vFillers = [...]byte{'a', 'Z', '7', '_'}

// Verif_C19_SplitLong: strings of n bytes (n up to 16) made of a concrete filler
// byte (lower-case letter, upper-case letter, digit or underscore, case split)
// except at two positions i < j (case split) which hold arbitrary symbolic
// bytes: same assertions as SplitLossless. Covers length-dependent behaviour
// beyond the exhaustive bound with a sparse symbolic input.
func Verif_C19_SplitLong(n int) {
	fill := vFillers[verifsym.IntRange(0, len(vFillers)-1)]
	i := verifsym.IntRange(0, n-2)
	j := verifsym.IntRange(i+1, n-1)
	b := make([]byte, n)
	for k := range b {
		b[k] = fill
	}
	b[i], b[j] = verifsym.Byte(), verifsym.Byte()
	s := string(b)
	words := Split(s)
	cat := ""
	for _, w := range words {
		verifsym.Assert(len(w) > 0, "empty word")
		cat += w
	}
	verifsym.Assert(cat == s, "concatenation of words differs from input")
	if !utf8.ValidString(s) {
		verifsym.Assert(len(words) == 1, "invalid UTF-8 must come back as one word")
	}
	verifsym.Observe("words", words)
	verifsym.Reach("end")
}

// Verif_C19_ConvertersLong: converter conv on inputs of `words` words of wlen
// bytes each (alternating lower-case and upper-case-initial words, so that
// Split finds that many words) with one arbitrary symbolic byte at a
// case-split position: returns, and returns the same text again.
func Verif_C19_ConvertersLong(conv, words, wlen int) {
	n := words * wlen
	b := make([]byte, n)
	for k := range b {
		if k%wlen == 0 {
			b[k] = 'A' + byte((k/wlen)%26)
		} else {
			b[k] = 'a' + byte(k%26)
		}
	}
	b[verifsym.IntRange(0, n-1)] = verifsym.Byte()
	s := string(b)
	f := verifConverters[conv]
	out := f(s)
	again := f(s)
	verifsym.Assert(out == again, "converter is not a function of its input")
	verifsym.Reach("end")
}

// Verif_C19_ConverterHistory: "the converters are pure functions of their
// input" over call histories, with an oracle: two words of wlen lower-case
// ASCII letters that are concrete except at one case-split position, where
// each has its own symbolic lower-case letter. Converter conv is applied to the
// first word and then to the second: the second result must be what the
// converter's definition gives for the second word alone (lower snake/kebab:
// the word; upper snake/kebab: upper-cased; lower camel: the word; upper camel:
// first letter upper-cased) - whatever was converted before.
func Verif_C19_ConverterHistory(conv, wlen int) {
	base := []byte("resolvername")[:wlen]
	pos := verifsym.IntRange(0, wlen-1)
	c1, c2 := verifsym.Byte(), verifsym.Byte()
	verifsym.Assume(verifsym.And(c1 >= 'a', c1 <= 'z'))
	verifsym.Assume(verifsym.And(c2 >= 'a', c2 <= 'z'))
	w1 := append([]byte(nil), base...)
	w2 := append([]byte(nil), base...)
	w1[pos], w2[pos] = c1, c2
	// "id" is special-cased by the camel converters
	verifsym.Assume(string(w2) != "id")
	f := verifConverters[conv]
	_ = f(string(w1))
	got := f(string(w2))
	want := make([]byte, wlen)
	for i, c := range w2 {
		switch conv {
		case 1, 3:
			want[i] = c - 32
		case 5:
			if i == 0 {
				want[i] = c - 32
			} else {
				want[i] = c
			}
		default:
			want[i] = c
		}
	}
	verifsym.Assert(got == string(want), "the result for a word depends on what was converted before (or differs from the converter's definition)")
	verifsym.Observe("got", got)
	verifsym.Reach("end")
}
