package types

import (
	"go/ast"

	"github.com/octohelm/gengo/internal/verifsym"
)

// Verif_C12_CommentLines: a comment group of k line comments "// " + t, t = n
// symbolic printable ASCII bytes without outer spaces: commentLinesFrom keeps,
// in order, exactly the lines that do not start with "go:".
func Verif_C12_CommentLines(k, n int) {
	var list []*ast.Comment
	var want []string
	for i := 0; i < k; i++ {
		b := verifsym.Bytes(n)
		for j, c := range b {
			verifsym.Assume(c >= 0x20)
			verifsym.Assume(c < 0x7F)
			if j == 0 || j == n-1 {
				verifsym.Assume(c != ' ')
			}
		}
		t := string(b)
		list = append(list, &ast.Comment{Text: "// " + t})
		if !(len(t) >= 3 && t[0] == 'g' && t[1] == 'o' && t[2] == ':') {
			want = append(want, t)
		}
	}
	got := commentLinesFrom(&ast.CommentGroup{List: list})
	verifsym.Assert(len(got) == len(want), "number of comment lines differs")
	for i := range want {
		if i < len(got) {
			verifsym.Assert(got[i] == want[i], "comment line changed or reordered")
		}
	}
	verifsym.Observe("got", got)
	verifsym.Reach("end")
}

// ---------------------------------------------------------------- C14 (guard lemma)

// Verif_C14_VisitedGuard: the recursion guard behind ResultsOf. Pre-state = the
// result of nprev earlier visited(t, j) calls with symbolic j (so only states a
// real history reaches); then for a symbolic result index `at`:
//
//	r1 := visited(t, at); r2 := visited(t, at)
//
// r2 must be true (a pair that was asked about is cut the next time: this is
// what bounds the recursion), and r1 must be false when (t, at) was never asked
// about (a fresh pair is not cut).
func Verif_C14_VisitedGuard(nres, named, nprev int) {
	var fields []*ast.Field
	if named == 1 {
		f := &ast.Field{}
		for i := 0; i < nres; i++ {
			f.Names = append(f.Names, ast.NewIdent("r"))
		}
		fields = append(fields, f)
	} else {
		for i := 0; i < nres; i++ {
			fields = append(fields, &ast.Field{})
		}
	}
	t := &ast.FuncType{Results: &ast.FieldList{List: fields}}
	v := visits{}
	asked := make([]bool, nres)
	for i := 0; i < nprev; i++ {
		j := verifsym.Int()
		verifsym.Assume(j >= 0 && j < nres)
		v.visited(t, j)
		asked[j] = true
	}
	at := verifsym.Int()
	verifsym.Assume(at >= 0 && at < nres)
	r1 := v.visited(t, at)
	r2 := v.visited(t, at)
	verifsym.Assert(r2, "visited(t, at) is false again right after visited(t, at): the recursion guard does not mark")
	if !asked[at] {
		verifsym.Assert(!r1, "a (function, result) pair never asked about is reported as visited")
	}
	verifsym.Observe("r1", r1)
	verifsym.Observe("r2", r2)
	verifsym.Reach("end")
}
