package types

import (
	"testing"

	"github.com/octohelm/gengo/internal/verifsym"
)

func TestVerifReplay(t *testing.T) {
	verifsym.RunReplay(t, map[string]any{
		"Verif_C15_Structure":              Verif_C15_Structure,
		"Verif_C15_Structure3":             Verif_C15_Structure3,
		"Verif_C15_Leaf":                   Verif_C15_Leaf,
		"Verif_C15_Chain":                  Verif_C15_Chain,
		"Verif_C12_TagsLong":               Verif_C12_TagsLong,
		"Verif_C12_Tags":                   Verif_C12_Tags,
		"Verif_C12_TagsMarker":             Verif_C12_TagsMarker,
		"Verif_C12_TagsUTF8":               Verif_C12_TagsUTF8,
		"Verif_C12_CommentLines":           Verif_C12_CommentLines,
		"Verif_C14_VisitedGuard":           Verif_C14_VisitedGuard,
		"Verif_C14_ResultsOf":              Verif_C14_ResultsOf,
		"Verif_C14_Literals":               Verif_C14_Literals,
		"Verif_C13_Tables":                 Verif_C13_Tables,
		"Verif_C13_Imports":                Verif_C13_Imports,
		"Verif_C13_ImportsChain":           Verif_C13_ImportsChain,
		"Verif_C13_BigFile":                Verif_C13_BigFile,
		"Verif_C13_TablesGeneric":          Verif_C13_TablesGeneric,
		"Verif_C13_Source":                 Verif_C13_Source,
		"Verif_C13_TablesMany":             Verif_C13_TablesMany,
		"Verif_C12_Attribution":            Verif_C12_Attribution,
		"Verif_C12_AttributionDecls":       Verif_C12_AttributionDecls,
		"Verif_C12_DocText":                Verif_C12_DocText,
		"Verif_C12_Layouts":                Verif_C12_Layouts,
		"Verif_C12_LineWrap":               Verif_C12_LineWrap,
		"Verif_C12_AttributionParsed":      Verif_C12_AttributionParsed,
		"Verif_C12_AttributionDeclsParsed": Verif_C12_AttributionDeclsParsed,
		"Verif_C12_DocTextParsed":          Verif_C12_DocTextParsed,
	})
}
