package types

import (
	"go/ast"
	"go/constant"
	"go/token"
	"go/types"

	"golang.org/x/tools/go/packages"

	"github.com/octohelm/gengo/internal/verifsym"
)

// ---------------------------------------------------------------- C13 (loader tables, Tier 3)

// Kinds of entries of types.Info.Defs the harness can create (real go/types
// objects made with go/types' own constructors, inserted into the scope the
// type checker would have used, so Parent() is what the checker sets).
const (
	vkPkgType     = iota // type N ... at package scope
	vkLocalType          // type N ... inside a function body
	vkTypeParam          // func f[N any]()
	vkAlias              // type N = int at package scope
	vkPkgConst           // const N = 1 at package scope
	vkLocalConst         // const N = 1 inside a function body
	vkPkgFunc            // func N() at package scope
	vkInitFunc           // func init() (not in any scope)
	vkMethodVal          // func (T) N()
	vkMethodPtr          // func (*T) N()
	vkVar                // var N int at package scope
	vkIfaceMethod        // a method of an interface type literal (receiver: the unnamed interface)
	vkNil                // the package clause identifier (nil object)
	vkNumKinds
)

type vDef struct {
	kind int
	name string
	obj  types.Object
}

// Verif_C13_Tables: a package whose types.Info.Defs holds k entries, each a
// symbolic choice of kind and of name (A or B), under every iteration order of
// the Defs map: Types(), Constants(), Functions() contain exactly the package-
// scope type names, constants and functions (init aside); Type/Constant/
// Function(name) return the package-scope object of that name - never a
// function-local declaration or a type parameter; MethodsOf(T, true) is exactly
// T's declared methods and MethodsOf(T, false) those with value receivers.
func Verif_C13_Tables(k int) { vTables(k, false, false) }

// Verif_C13_TablesGeneric: the same with an additional generic type G[P any]
// that symbolically has a value-receiver and a pointer-receiver method.
func Verif_C13_TablesGeneric(k int) { vTables(k, true, false) }

// Verif_C13_TablesMany: a package with k Defs entries (k up to 40) whose kinds
// cycle through all kinds with distinct names N0, N1, ...; one entry (case split
// over every position) has a symbolic kind and, symbolically, the name of
// another entry (a function-local declaration shadowing a package-scope name).
func Verif_C13_TablesMany(k int) { vTables(k, true, true) }

func vTables(k int, withGeneric bool, sparse bool) {
	tpkg := types.NewPackage("example.com/m/p", "p")
	fset := token.NewFileSet()
	local := types.NewScope(tpkg.Scope(), token.NoPos, token.NoPos, "function body")
	// T: the receiver type of the methods, always declared
	tObj := types.NewTypeName(token.Pos(1), tpkg, "T", nil)
	tNamed := types.NewNamed(tObj, types.Typ[types.Int], nil)
	tpkg.Scope().Insert(tObj)

	defs := map[*ast.Ident]types.Object{ast.NewIdent("T"): tObj}
	var made []vDef
	made = append(made, vDef{vkPkgType, "T", tObj})
	taken := map[string]bool{"T": true, "G": true} // names already declared at package scope
	noSig := types.NewSignatureType(nil, nil, nil, nil, nil, false)
	symPos := -1
	if sparse {
		symPos = verifsym.IntRange(0, k-1)
	}
	vName := func(i int) string { return "N" + string([]byte{'0' + byte(i/10), '0' + byte(i%10)}) }
	for i := 0; i < k; i++ {
		var kind int
		var name string
		if sparse {
			kind, name = i%vkNumKinds, vName(i)
			if i == symPos {
				kind = verifsym.IntRange(0, vkNumKinds-1)
				if verifsym.Bool() {
					name = vName((i + vkNumKinds) % k)
				}
			}
		} else {
			kind = verifsym.IntRange(0, vkNumKinds-1)
			name = "A"
			if verifsym.Bool() {
				name = "B"
			}
		}
		pos := token.Pos(10 + i)
		var obj types.Object
		switch kind {
		case vkPkgType, vkAlias, vkPkgConst, vkPkgFunc, vkVar:
			// a name is declared at most once at package scope (the checker rejects anything else)
			verifsym.Assume(!taken[name])
			taken[name] = true
		}
		switch kind {
		case vkPkgType:
			tn := types.NewTypeName(pos, tpkg, name, nil)
			types.NewNamed(tn, types.Typ[types.String], nil)
			tpkg.Scope().Insert(tn)
			obj = tn
		case vkLocalType:
			tn := types.NewTypeName(pos, tpkg, name, nil)
			types.NewNamed(tn, types.Typ[types.Bool], nil)
			types.NewScope(local, token.NoPos, token.NoPos, "block").Insert(tn)
			obj = tn
		case vkTypeParam:
			tn := types.NewTypeName(pos, tpkg, name, nil)
			types.NewTypeParam(tn, types.NewInterfaceType(nil, nil))
			types.NewScope(local, token.NoPos, token.NoPos, "type parameters").Insert(tn)
			obj = tn
		case vkAlias:
			tn := types.NewTypeName(pos, tpkg, name, nil)
			types.NewAlias(tn, types.Typ[types.Int])
			tpkg.Scope().Insert(tn)
			obj = tn
		case vkPkgConst:
			c := types.NewConst(pos, tpkg, name, types.Typ[types.Int], constant.MakeInt64(1))
			tpkg.Scope().Insert(c)
			obj = c
		case vkLocalConst:
			c := types.NewConst(pos, tpkg, name, types.Typ[types.Int], constant.MakeInt64(2))
			types.NewScope(local, token.NoPos, token.NoPos, "block").Insert(c)
			obj = c
		case vkPkgFunc:
			f := types.NewFunc(pos, tpkg, name, noSig)
			tpkg.Scope().Insert(f)
			obj = f
		case vkInitFunc:
			name = "init"
			obj = types.NewFunc(pos, tpkg, "init", noSig)
		case vkMethodVal:
			recv := types.NewVar(pos, tpkg, "t", tNamed)
			obj = types.NewFunc(pos, tpkg, name, types.NewSignatureType(recv, nil, nil, nil, nil, false))
		case vkMethodPtr:
			recv := types.NewVar(pos, tpkg, "t", types.NewPointer(tNamed))
			obj = types.NewFunc(pos, tpkg, name, types.NewSignatureType(recv, nil, nil, nil, nil, false))
		case vkVar:
			v := types.NewVar(pos, tpkg, name, types.Typ[types.Int])
			tpkg.Scope().Insert(v)
			obj = v
		case vkIfaceMethod:
			recv := types.NewVar(pos, tpkg, "", types.NewInterfaceType(nil, nil))
			obj = types.NewFunc(pos, tpkg, name, types.NewSignatureType(recv, nil, nil, nil, nil, false))
		case vkNil:
			obj = nil
		}
		defs[ast.NewIdent(name)] = obj
		made = append(made, vDef{kind, name, obj})
	}

	// a generic type G[P any] with (symbolically) a value- and a pointer-receiver
	// method: the receiver of a method of a generic type is the INSTANTIATED type G[P]
	var gNamed *types.Named
	var gVal, gPtr types.Object
	if withGeneric {
		gObj := types.NewTypeName(token.Pos(2), tpkg, "G", nil)
		gNamed = types.NewNamed(gObj, types.NewStruct(nil, nil), nil)
		pObj := types.NewTypeName(token.Pos(3), tpkg, "P", nil)
		pParam := types.NewTypeParam(pObj, types.NewInterfaceType(nil, nil))
		gNamed.SetTypeParams([]*types.TypeParam{pParam})
		tpkg.Scope().Insert(gObj)
		defs[ast.NewIdent("G")] = gObj
		made = append(made, vDef{vkPkgType, "G", gObj})
		recvOf := func() *types.Named {
			// what the checker records for `func (g G[P]) ...`: an instance over the method's own receiver type parameter
			rp := types.NewTypeParam(types.NewTypeName(token.Pos(4), tpkg, "P", nil), types.NewInterfaceType(nil, nil))
			inst, err := types.Instantiate(nil, gNamed, []types.Type{rp}, false)
			if err != nil {
				panic(err)
			}
			return inst.(*types.Named)
		}
		if verifsym.Bool() {
			recv := types.NewVar(token.Pos(5), tpkg, "g", recvOf())
			f := types.NewFunc(token.Pos(5), tpkg, "MV", types.NewSignatureType(recv, nil, nil, nil, nil, false))
			defs[ast.NewIdent("MV")] = f
			gVal = f
		}
		if verifsym.Bool() {
			recv := types.NewVar(token.Pos(6), tpkg, "g", types.NewPointer(recvOf()))
			f := types.NewFunc(token.Pos(6), tpkg, "MP", types.NewSignatureType(recv, nil, nil, nil, nil, false))
			defs[ast.NewIdent("MP")] = f
			gPtr = f
		}
	}

	pp := &packages.Package{PkgPath: tpkg.Path(), Name: "p", Types: tpkg, Fset: fset, TypesInfo: &types.Info{Defs: defs}}
	u := VerifNewUniverse(fset, map[string]Package{}, map[string]bool{}, nil, "")
	// natively the iteration order of Defs is random: repeat, so that an
	// order-dependent table shows up with overwhelming probability
	reps := 1
	if !verifsym.Symbolic() {
		reps = 64
	}
	for rep := 0; rep < reps; rep++ {
		p := newPkg(pp, u)
		nT, nC, nF := 0, 0, 0
		nMethods, nValMethods := 0, 0
		for _, d := range made {
			switch d.kind {
			case vkPkgType, vkAlias:
				nT++
				verifsym.Assert(p.Type(d.name) == d.obj, "Type(name) is not the package-scope type of that name")
			case vkPkgConst:
				nC++
				verifsym.Assert(p.Constant(d.name) == d.obj, "Constant(name) is not the package-scope constant of that name")
			case vkPkgFunc:
				nF++
				verifsym.Assert(p.Function(d.name) == d.obj, "Function(name) is not the package-scope function of that name")
			case vkMethodVal:
				nMethods++
				nValMethods++
			case vkMethodPtr:
				nMethods++
			}
		}
		count := 0
		for _, o := range p.Types() {
			verifsym.Assert(o.Parent() == tpkg.Scope(), "Types() contains a function-local type or a type parameter")
			count++
		}
		verifsym.Assert(count == nT, "Types() is not exactly the package-scope type names")
		count = 0
		for _, o := range p.Constants() {
			verifsym.Assert(o.Parent() == tpkg.Scope(), "Constants() contains a function-local constant")
			count++
		}
		verifsym.Assert(count == nC, "Constants() is not exactly the package-scope constants")
		count = 0
		for _, o := range p.Functions() {
			// init and blank-named functions are set aside by the statement: neither required nor forbidden
			if o.Name() != "init" && o.Name() != "_" {
				count++
			}
		}
		verifsym.Assert(count == nF, "Functions() is not exactly the package-scope functions")
		// asked in this order on purpose: an answer must not disturb later answers
		val1 := p.MethodsOf(tNamed, false)
		all := p.MethodsOf(tNamed, true)
		val2 := p.MethodsOf(tNamed, false)
		verifsym.Assert(len(all) == nMethods, "MethodsOf(T, true) is not exactly T's declared methods")
		verifsym.Assert(len(val1) == nValMethods && len(val2) == nValMethods, "MethodsOf(T, false) is not exactly the value-receiver methods")
		for _, d := range made {
			if d.kind != vkMethodVal && d.kind != vkMethodPtr {
				continue
			}
			inAll, inVal1, inVal2 := 0, 0, 0
			for _, m := range all {
				if types.Object(m) == d.obj {
					inAll++
				}
			}
			for _, m := range val1 {
				if types.Object(m) == d.obj {
					inVal1++
				}
			}
			for _, m := range val2 {
				if types.Object(m) == d.obj {
					inVal2++
				}
			}
			verifsym.Assert(inAll == 1, "a declared method is missing from (or listed twice in) MethodsOf(T, true)")
			wantVal := 0
			if d.kind == vkMethodVal {
				wantVal = 1
			}
			verifsym.Assert(inVal1 == wantVal && inVal2 == wantVal, "MethodsOf(T, false) does not list exactly the value-receiver methods, each once, on every call")
		}
		if withGeneric {
			ng, ngv := 0, 0
			if gVal != nil {
				ng++
				ngv++
			}
			if gPtr != nil {
				ng++
			}
			verifsym.Assert(len(p.MethodsOf(gNamed, true)) == ng, "MethodsOf(G, true) is not exactly the declared methods of the generic type G")
			verifsym.Assert(len(p.MethodsOf(gNamed, false)) == ngv, "MethodsOf(G, false) is not exactly the value-receiver methods of the generic type G")
		}
	}
	verifsym.Reach("end")
}
