package types

import (
	"github.com/octohelm/gengo/internal/verifsym"
)

// ---------------------------------------------------------------- C15

// vNode is the harness's own model of the reference grammar
//
//	ref ::= [path '.'] ident [ '[' ref {',' ref} ']' ]
type vNode struct {
	path  string
	ident string
	kids  []*vNode
}

// vCount(levels) = number of tree shapes with at most `levels` levels and at most 2 children per node.
func vCount(levels int) int {
	if levels <= 1 {
		return 1
	}
	c := vCount(levels - 1)
	return 1 + c + c*c
}

func vCount3(levels int) int {
	if levels <= 1 {
		return 1
	}
	c := vCount3(levels - 1)
	return 1 + c + c*c + c*c*c
}

// vShape decodes shape number i (0 <= i < vCount(levels)).
func vShape(i, levels int) *vNode {
	n := &vNode{}
	if i == 0 || levels <= 1 {
		return n
	}
	c := vCount(levels - 1)
	i--
	if i < c {
		n.kids = []*vNode{vShape(i, levels-1)}
		return n
	}
	i -= c
	n.kids = []*vNode{vShape(i/c, levels-1), vShape(i%c, levels-1)}
	return n
}

// vShape3 allows up to 3 children.
func vShape3(i, levels int) *vNode {
	n := &vNode{}
	if i == 0 || levels <= 1 {
		return n
	}
	c := vCount3(levels - 1)
	i--
	if i < c {
		n.kids = []*vNode{vShape3(i, levels-1)}
		return n
	}
	i -= c
	if i < c*c {
		n.kids = []*vNode{vShape3(i/c, levels-1), vShape3(i%c, levels-1)}
		return n
	}
	i -= c * c
	n.kids = []*vNode{vShape3(i/(c*c), levels-1), vShape3((i/c)%c, levels-1), vShape3(i%c, levels-1)}
	return n
}

func vSize(n *vNode) int {
	s := 1
	for _, k := range n.kids {
		s += vSize(k)
	}
	return s
}

func vIdentByte() byte {
	b := verifsym.Byte()
	verifsym.Assume(b < 0x80)
	verifsym.Assume(b != '[')
	verifsym.Assume(b != ']')
	verifsym.Assume(b != ',')
	verifsym.Assume(b != '.')
	return b
}

func vPathByte() byte {
	b := verifsym.Byte()
	verifsym.Assume(b < 0x80)
	verifsym.Assume(b != '[')
	verifsym.Assume(b != ']')
	verifsym.Assume(b != ',')
	return b
}

// vFill gives every node a symbolic one-byte identifier and a symbolic path
// (bytes may be dots and slashes) according to pathMode: 0 no paths, 1 every
// node a 1-byte path, 2 every node a 2-byte path, 3 case split per node over
// {no path, 1 byte, 2 bytes}.
func vFill(n *vNode, pathMode int) {
	n.ident = string([]byte{vIdentByte()})
	k := pathMode
	if pathMode == 3 {
		k = verifsym.IntRange(0, 2)
	}
	switch k {
	case 1:
		n.path = string([]byte{vPathByte()})
	case 2:
		n.path = string([]byte{vPathByte(), vPathByte()})
	}
	for _, kid := range n.kids {
		vFill(kid, pathMode)
	}
}

func vPrint(n *vNode) string {
	s := ""
	if n.path != "" {
		s = n.path + "."
	}
	s += n.ident
	if len(n.kids) > 0 {
		s += "["
		for i, k := range n.kids {
			if i > 0 {
				s += ","
			}
			s += vPrint(k)
		}
		s += "]"
	}
	return s
}

func vSame(n *vNode, t *TypeRef) bool {
	if t == nil || t.Name != n.ident || t.PkgPath != n.path || len(t.TypeList) != len(n.kids) {
		return false
	}
	for i, k := range n.kids {
		if !vSame(k, t.TypeList[i]) {
			return false
		}
	}
	return true
}

func vCheckRoundTrip(n *vNode) {
	s := vPrint(n)
	t, err := ParseTypeRef(s)
	verifsym.Assert(err == nil, "ParseTypeRef rejects a well-formed reference")
	if err != nil {
		return
	}
	verifsym.Assert(vSame(n, t), "parsed structure differs from the reference")
	verifsym.Assert(t.String() == s, "String() does not give back the input")
	verifsym.Observe("printed", t.String())
}

// Verif_C15_Structure: for every tree shape with at most `levels` levels and at
// most 2 arguments per bracket (case split inside the harness), with symbolic
// identifier and path bytes, ParseTypeRef succeeds, yields exactly the
// reference tree, and String() prints the input.
func Verif_C15_Structure(levels, pathMode int) {
	shape := verifsym.IntRange(0, vCount(levels)-1)
	n := vShape(shape, levels)
	vFill(n, pathMode)
	vCheckRoundTrip(n)
	verifsym.Reach("end")
}

// Verif_C15_Structure3: the same with up to 3 arguments per bracket.
func Verif_C15_Structure3(levels, pathMode int) {
	shape := verifsym.IntRange(0, vCount3(levels)-1)
	n := vShape3(shape, levels)
	vFill(n, pathMode)
	vCheckRoundTrip(n)
	verifsym.Reach("end")
}

// Verif_C15_Leaf: bracket-free references of n arbitrary bytes (any byte except
// '[' ']' ','; valid UTF-8 or not) with at least one dot that is not the first
// byte: ParseTypeRef splits at the last dot and String() prints the input;
// ParseRef agrees on the split point.
func Verif_C15_Leaf(n int) {
	b := verifsym.Bytes(n)
	for _, c := range b {
		verifsym.Assume(c != '[')
		verifsym.Assume(c != ']')
		verifsym.Assume(c != ',')
	}
	s := string(b)
	last := -1
	for i := len(s) - 1; i >= 0; i-- {
		if s[i] == '.' {
			last = i
			break
		}
	}
	t, err := ParseTypeRef(s)
	verifsym.Assert(err == nil, "ParseTypeRef rejects a bracket-free reference")
	if err != nil {
		return
	}
	if last > 0 {
		verifsym.Assert(t.PkgPath == s[:last] && t.Name == s[last+1:], "not split at the last dot")
	} else {
		verifsym.Assert(t.PkgPath == "" && t.Name == s, "dot-free (or leading-dot) reference must be a bare name")
	}
	verifsym.Assert(len(t.TypeList) == 0, "bracket-free reference got arguments")
	verifsym.Assert(t.String() == s, "String() does not give back the input")
	r, rerr := ParseRef(s)
	if last > 0 {
		verifsym.Assert(rerr == nil, "ParseRef rejects a dotted reference")
		if rerr == nil {
			verifsym.Assert(r.Pkg().Path() == t.PkgPath && r.Name() == t.Name, "ParseRef and ParseTypeRef disagree on the split point")
		}
	} else {
		verifsym.Assert(rerr != nil, "ParseRef accepts a reference without package path")
	}
	verifsym.Observe("path", t.PkgPath)
	verifsym.Observe("name", t.Name)
	verifsym.Reach("end")
}

// ---------------------------------------------------------------- C12 (tag half)

type vTag struct{ key, value string }

func vTrimSpaces(s string) string {
	i, j := 0, len(s)
	for i < j && s[i] == ' ' {
		i++
	}
	for j > i && s[j-1] == ' ' {
		j--
	}
	return s[i:j]
}

// vRefTags is the reference classifier of C12's statement: a line is a tag iff,
// after trimming spaces, it is non-empty and starts with a marker; key = text up
// to the first '=' or space, value = everything after.
func vRefTags(lines []string, markers []byte) (tags []vTag, others []string) {
	for _, line := range lines {
		t := vTrimSpaces(line)
		isTag := false
		if len(t) > 0 {
			for _, m := range markers {
				if t[0] == m {
					isTag = true
				}
			}
		}
		if !isTag {
			others = append(others, t)
			continue
		}
		rest := t[1:]
		cut := len(rest)
		for i := 0; i < len(rest); i++ {
			if rest[i] == '=' || rest[i] == ' ' {
				cut = i
				break
			}
		}
		tg := vTag{key: rest[:cut]}
		if cut < len(rest) {
			tg.value = rest[cut+1:]
		}
		tags = append(tags, tg)
	}
	return
}

func vCheckTags(lines []string, markers []byte, custom bool) {
	wantTags, wantOthers := vRefTags(lines, markers)
	var got map[string][]string
	var others []string
	if custom {
		got, others = ExtractCommentTags(lines, markers...)
	} else {
		got, others = ExtractCommentTags(lines)
	}
	// every line classified exactly once
	total := 0
	for _, vs := range got {
		verifsym.Assert(len(vs) > 0, "tag key with an empty value list")
		total += len(vs)
	}
	verifsym.Assert(total == len(wantTags), "number of tag values differs from number of tag lines")
	verifsym.Assert(len(others) == len(wantOthers), "number of non-tag lines differs")
	for i := range wantOthers {
		if i < len(others) {
			verifsym.Assert(others[i] == wantOthers[i], "non-tag line changed or reordered")
		}
	}
	// values appended per key in line order
	for i, tg := range wantTags {
		pos := 0
		for j := 0; j < i; j++ {
			if wantTags[j].key == tg.key {
				pos++
			}
		}
		vs := got[tg.key]
		verifsym.Assert(len(vs) > pos, "tag value missing")
		if len(vs) > pos {
			verifsym.Assert(vs[pos] == tg.value, "tag value differs or out of order")
		}
	}
	verifsym.Observe("others", others)
	verifsym.Observe("ntags", total)
}

// Verif_C12_Tags: k lines of n arbitrary ASCII bytes each, default markers.
func Verif_C12_Tags(k, n int) {
	lines := make([]string, k)
	for i := range lines {
		b := verifsym.Bytes(n)
		for _, c := range b {
			verifsym.Assume(c < 0x80)
		}
		lines[i] = string(b)
	}
	vCheckTags(lines, []byte{'+', '@'}, false)
	verifsym.Reach("end")
}

// Verif_C12_TagsMarker: one line of n ASCII bytes, one symbolic custom marker.
func Verif_C12_TagsMarker(n int) {
	b := verifsym.Bytes(n)
	for _, c := range b {
		verifsym.Assume(c < 0x80)
	}
	m := verifsym.Byte()
	vCheckTags([]string{string(b)}, []byte{m}, true)
	verifsym.Reach("end")
}

// Verif_C12_TagsUTF8: a tag line "+" k "=" v where k and v each contain one
// arbitrary valid multi-byte rune: key and value keep their bytes.
func Verif_C12_TagsUTF8(w int) {
	r := string(verifsym.Bytes(w))
	ok := false
	for i, c := range r {
		if i == 0 && c != 0xFFFD && len(string(c)) == w {
			ok = true
		}
	}
	verifsym.Assume(ok)
	line := " +k" + r + "=v" + r + " x "
	got, others := ExtractCommentTags([]string{line})
	verifsym.Assert(len(others) == 0, "tag line reported as text")
	vs := got["k"+r]
	verifsym.Assert(len(vs) == 1 && vs[0] == "v"+r+" x", "non-ASCII key/value not preserved")
	verifsym.Reach("end")
}

// Verif_C15_Chain: deep and wide references beyond the exhaustive shape bound:
// a chain of `depth` nested single-argument references whose innermost argument
// list has `width` arguments; every node has a symbolic 3-byte identifier and,
// per pathMode, a symbolic 2-byte path. Same assertions as Structure.
func Verif_C15_Chain(depth, width, pathMode int) {
	mk := func() *vNode {
		n := &vNode{ident: string([]byte{vIdentByte(), vIdentByte(), vIdentByte()})}
		if pathMode == 1 {
			n.path = string([]byte{vPathByte(), vPathByte()})
		}
		return n
	}
	root := mk()
	cur := root
	for d := 1; d < depth; d++ {
		k := mk()
		cur.kids = []*vNode{k}
		cur = k
	}
	for i := 0; i < width; i++ {
		cur.kids = append(cur.kids, mk())
	}
	vCheckRoundTrip(root)
	verifsym.Reach("end")
}

// Verif_C12_TagsLong: line lists beyond the exhaustive bound, sparsely symbolic:
// k lines of about 14 bytes ("+key<j>=val ue<i> x"); keys repeat (j = i mod 2),
// so repeated keys collect three or more values in order; in ONE line (case
// split) two bytes at case-split positions are arbitrary ASCII bytes.
func Verif_C12_TagsLong(k int) {
	lines := make([]string, k)
	sym := verifsym.IntRange(0, k-1)
	for i := range lines {
		b := []byte("+key" + string([]byte{'0' + byte(i%2)}) + "=val ue" + string([]byte{'0' + byte(i)}) + " x")
		if i == sym {
			p := verifsym.IntRange(0, len(b)-2)
			q := verifsym.IntRange(p+1, len(b)-1)
			c1, c2 := verifsym.Byte(), verifsym.Byte()
			verifsym.Assume(c1 < 0x80)
			verifsym.Assume(c2 < 0x80)
			b[p], b[q] = c1, c2
		}
		lines[i] = string(b)
	}
	vCheckTags(lines, []byte{'+', '@'}, false)
	verifsym.Reach("end")
}
