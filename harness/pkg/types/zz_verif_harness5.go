package types

import (
	"go/ast"
	"go/parser"
	"go/token"
	"go/types"

	"golang.org/x/tools/go/packages"

	"github.com/octohelm/gengo/internal/verifsym"
)

// ---------------------------------------------------------------- C12 (attribution half)
//
// go/parser cannot run symbolically. Each scenario is rendered as Go source;
// natively that source is parsed by the real go/parser, under the engine the
// *ast.File is built by the harness from the same source text (positions are
// the byte offsets of the pieces in that text, the line table is the text's),
// following go/parser's comment-attachment rules: a comment group that ends on
// the line directly above a declaration is its Doc (for an ungrouped
// declaration: the GenDecl's), a comment on the declaration's last line is its
// Comment, every other comment is only in File.Comments. The witness replay
// compares all observations of both runs, which validates the construction.

type vSrc struct {
	text string
	tf   *token.File
}

func vIndexFrom(s, sub string, from int) int {
	for i := from; i+len(sub) <= len(s); i++ {
		if s[i:i+len(sub)] == sub {
			return i
		}
	}
	return -1
}

func vNewSrc(fset *token.FileSet, text string) *vSrc {
	tf := fset.AddFile("/src/p/p.go", -1, len(text))
	tf.SetLinesForContent([]byte(text))
	return &vSrc{text: text, tf: tf}
}

// pos returns the position of the first occurrence of sub at or after `after`.
func (s *vSrc) pos(sub string, after token.Pos) token.Pos {
	from := 0
	if after.IsValid() {
		from = int(after) - s.tf.Base()
	}
	i := vIndexFrom(s.text, sub, from)
	if i < 0 {
		panic("harness: piece not found in scenario source: " + sub)
	}
	return token.Pos(s.tf.Base() + i)
}

func (s *vSrc) group(text string, after token.Pos) *ast.CommentGroup {
	return &ast.CommentGroup{List: []*ast.Comment{{Slash: s.pos(text, after), Text: text}}}
}

func (s *vSrc) file() *ast.File {
	return &ast.File{Package: s.pos("package p", token.NoPos), Name: &ast.Ident{NamePos: s.pos("package p", token.NoPos) + 8, Name: "p"},
		FileStart: token.Pos(s.tf.Base()), FileEnd: token.Pos(s.tf.Base() + len(s.text))}
}

// Layout of one struct field / declaration in a scenario.
type vFieldLayout struct {
	doc       int  // 0 none, 1 attached // comment, 2 detached // comment (blank line in between), 3 attached two-line /* */ comment
	trailing  bool // a // comment at the end of the declaration's (last) line
	multiline bool // the declaration spans three lines (a field of anonymous struct type)
}

func vNum(i int) string { return string([]byte{'0' + byte(i)}) }

func vDocText(indent string, i, doc int) string {
	switch doc {
	case 1:
		return indent + "// d" + vNum(i) + "\n"
	case 2:
		return indent + "// x" + vNum(i) + "\n\n"
	case 3:
		return indent + "/* m" + vNum(i) + "a\n" + indent + "m" + vNum(i) + "b */\n"
	}
	return ""
}

func vWantDoc(i, doc int) []string {
	switch doc {
	case 1:
		return []string{"d" + vNum(i)}
	case 3:
		return []string{"m" + vNum(i) + "a", "m" + vNum(i) + "b"}
	}
	return nil
}

// vSameLines compares modulo surrounding blanks and tabs (the statement does not
// say how the indentation inside a block comment is treated).
func vSameLines(a, b []string) bool {
	if len(a) != len(b) {
		return false
	}
	for i := range a {
		x := a[i]
		for len(x) > 0 && (x[0] == ' ' || x[0] == '\t') {
			x = x[1:]
		}
		for len(x) > 0 && (x[len(x)-1] == ' ' || x[len(x)-1] == '\t') {
			x = x[:len(x)-1]
		}
		if x != b[i] {
			return false
		}
	}
	return true
}

// vAttrSource: a struct type with the given fields.
func vAttrSource(typeDoc, braceComment bool, fields []vFieldLayout) string {
	s := "package p\n\n"
	if typeDoc {
		s += "// T doc\n"
	}
	s += "type T struct {"
	if braceComment {
		s += " // brace"
	}
	s += "\n"
	for i, f := range fields {
		s += vDocText("\t", i, f.doc)
		if f.multiline {
			s += "\tF" + vNum(i) + " struct {\n\t\tX" + vNum(i) + " int\n\t}"
		} else {
			s += "\tF" + vNum(i) + " int"
		}
		if f.trailing {
			s += " // t" + vNum(i)
		}
		s += "\n"
	}
	s += "}\n"
	return s
}

func vAttrAST(fset *token.FileSet, typeDoc, braceComment bool, fields []vFieldLayout) (*ast.File, []token.Pos, token.Pos) {
	src := vNewSrc(fset, vAttrSource(typeDoc, braceComment, fields))
	f := src.file()
	gd := &ast.GenDecl{Tok: token.TYPE, TokPos: src.pos("type T struct", token.NoPos)}
	if typeDoc {
		gd.Doc = src.group("// T doc", token.NoPos)
		f.Comments = append(f.Comments, gd.Doc)
	}
	tname := &ast.Ident{NamePos: gd.TokPos + 5, Name: "T"}
	st := &ast.StructType{Struct: gd.TokPos + 7, Fields: &ast.FieldList{Opening: gd.TokPos + 14}}
	if braceComment {
		f.Comments = append(f.Comments, src.group("// brace", token.NoPos))
	}
	var fieldPos []token.Pos
	for i, fl := range fields {
		fd := &ast.Field{}
		namePos := src.pos("\tF"+vNum(i)+" ", token.NoPos) + 1
		switch fl.doc {
		case 1:
			fd.Doc = src.group("// d"+vNum(i), token.NoPos)
			f.Comments = append(f.Comments, fd.Doc)
		case 2:
			f.Comments = append(f.Comments, src.group("// x"+vNum(i), token.NoPos))
		case 3:
			fd.Doc = src.group("/* m"+vNum(i)+"a\n\tm"+vNum(i)+"b */", token.NoPos)
			f.Comments = append(f.Comments, fd.Doc)
		}
		fd.Names = []*ast.Ident{{NamePos: namePos, Name: "F" + vNum(i)}}
		if fl.multiline {
			inner := &ast.Field{Names: []*ast.Ident{{NamePos: src.pos("X"+vNum(i)+" int", namePos), Name: "X" + vNum(i)}}}
			inner.Type = &ast.Ident{NamePos: inner.Names[0].NamePos + 3, Name: "int"}
			fd.Type = &ast.StructType{Struct: namePos + 3, Fields: &ast.FieldList{Opening: namePos + 10, List: []*ast.Field{inner}, Closing: src.pos("\t}", namePos) + 1}}
		} else {
			fd.Type = &ast.Ident{NamePos: namePos + 3, Name: "int"}
		}
		if fl.trailing {
			fd.Comment = src.group("// t"+vNum(i), namePos)
			f.Comments = append(f.Comments, fd.Comment)
		}
		fieldPos = append(fieldPos, namePos)
		st.Fields.List = append(st.Fields.List, fd)
	}
	st.Fields.Closing = token.Pos(src.tf.Base() + len(src.text) - 2)
	gd.Specs = []ast.Spec{&ast.TypeSpec{Name: tname, Type: st}}
	f.Decls = []ast.Decl{gd}
	return f, fieldPos, tname.NamePos
}

func vNewPkgFor(fset *token.FileSet, file *ast.File) *pkgInfo {
	tpkg := types.NewPackage("example.com/m/p", "p")
	pp := &packages.Package{PkgPath: tpkg.Path(), Name: "p", Types: tpkg, Fset: fset, Syntax: []*ast.File{file},
		TypesInfo: &types.Info{Defs: map[*ast.Ident]types.Object{}, Types: map[ast.Expr]types.TypeAndValue{}}}
	return newPkg(pp, VerifNewUniverse(fset, map[string]Package{}, map[string]bool{}, nil, "")).(*pkgInfo)
}

// Verif_C12_Attribution: a struct type (own doc comment and a comment behind
// its opening brace symbolic) with k fields; each field symbolically without
// doc / with an attached // doc / with a detached comment / with an attached
// two-line block comment, with or without a trailing comment, single-line or
// spanning three lines. For every field: Doc(pos) is exactly the comment group
// directly above it (nothing if there is none - never the previous field's
// trailing comment, a detached comment or the comment behind the brace);
// Comment(pos) of a single-line field is exactly its trailing comment.
func Verif_C12_Attribution(k int) {
	typeDoc, braceComment := verifsym.Bool(), verifsym.Bool()
	fields := make([]vFieldLayout, k)
	for i := range fields {
		fields[i] = vFieldLayout{doc: verifsym.IntRange(0, 3), trailing: verifsym.Bool(), multiline: verifsym.Bool()}
	}
	fset := token.NewFileSet()
	var file *ast.File
	var fieldPos []token.Pos
	var typePos token.Pos
	if verifsym.Symbolic() && !vRealParser {
		file, fieldPos, typePos = vAttrAST(fset, typeDoc, braceComment, fields)
	} else {
		var err error
		file, err = vParse(fset, "/src/p/p.go", vAttrSource(typeDoc, braceComment, fields), parser.ParseComments)
		if err != nil {
			panic(err)
		}
		ts := file.Decls[0].(*ast.GenDecl).Specs[0].(*ast.TypeSpec)
		typePos = ts.Name.NamePos
		for _, fd := range ts.Type.(*ast.StructType).Fields.List {
			fieldPos = append(fieldPos, fd.Names[0].NamePos)
		}
	}
	p := vNewPkgFor(fset, file)

	_, tdoc := p.Doc(typePos)
	if typeDoc {
		verifsym.Assert(len(tdoc) == 1 && tdoc[0] == "T doc", "the type's doc comment is not reported")
	} else {
		verifsym.Assert(len(tdoc) == 0, "a type without doc comment gets documentation")
	}
	for i, fl := range fields {
		_, doc := p.Doc(fieldPos[i])
		cm := p.Comment(fieldPos[i])
		want := vWantDoc(i, fl.doc)
		if want != nil {
			verifsym.Assert(vSameLines(doc, want), "Doc is not exactly the comment group directly above the declaration")
		} else {
			verifsym.Assert(len(doc) == 0, "a declaration without doc comment gets documentation (previous declaration's trailing comment, a detached comment or the comment behind the brace)")
		}
		if !fl.multiline {
			if fl.trailing {
				verifsym.Assert(len(cm) == 1 && cm[0] == "t"+vNum(i), "Comment is not exactly the trailing comment on the declaration's line")
			} else {
				verifsym.Assert(len(cm) == 0, "a declaration without trailing comment gets one")
			}
		}
		verifsym.Observe("doc", doc)
		verifsym.Observe("comment", cm)
	}
	verifsym.Reach("end")
}
