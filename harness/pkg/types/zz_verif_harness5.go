package types

import (
	"go/ast"
	"go/parser"
	"go/token"
	"go/types"

	"golang.org/x/tools/go/packages"

	"github.com/octohelm/gengo/internal/verifsym"
)

// ---------------------------------------------------------------- C12 (attribution half)

// Layout of one struct field in the scenario source.
type vFieldLayout struct {
	doc      int  // 0 none, 1 attached (ends on the line directly above), 2 detached (a blank line in between)
	trailing bool // a // comment on the field's own line
}

func vNum(i int) string { return string([]byte{'0' + byte(i)}) }

// vAttrSource renders the scenario as Go source (used natively, parsed by the real go/parser).
func vAttrSource(typeDoc bool, fields []vFieldLayout) string {
	s := "package p\n\n"
	if typeDoc {
		s += "// T doc\n"
	}
	s += "type T struct {\n"
	for i, f := range fields {
		switch f.doc {
		case 1:
			s += "\t// d" + vNum(i) + "\n"
		case 2:
			s += "\t// x" + vNum(i) + "\n\n"
		}
		s += "\tF" + vNum(i) + " int"
		if f.trailing {
			s += " // t" + vNum(i)
		}
		s += "\n"
	}
	s += "}\n"
	return s
}

// vAttrAST builds, with the same line layout, the AST that go/parser produces
// for vAttrSource (used under the engine, where the parser cannot run): doc and
// trailing comments attached to their Field / GenDecl, detached comments only
// in File.Comments. The witness replay compares every observation with the
// native run on the really parsed file, which validates this construction.
func vAttrAST(fset *token.FileSet, typeDoc bool, fields []vFieldLayout) (*ast.File, []token.Pos, token.Pos) {
	const width = 100
	nlines := 8 + 4*len(fields)
	tf := fset.AddFile("/src/p/p.go", -1, nlines*width)
	lines := make([]int, nlines)
	for i := range lines {
		lines[i] = i * width
	}
	tf.SetLines(lines)
	at := func(line, col int) token.Pos { return token.Pos(tf.Base() + (line-1)*width + col) }
	group := func(line, col int, text string) *ast.CommentGroup {
		return &ast.CommentGroup{List: []*ast.Comment{{Slash: at(line, col), Text: text}}}
	}
	f := &ast.File{Package: at(1, 0), Name: &ast.Ident{NamePos: at(1, 8), Name: "p"}, FileStart: token.Pos(tf.Base()), FileEnd: token.Pos(tf.Base() + nlines*width)}
	line := 3
	gd := &ast.GenDecl{Tok: token.TYPE}
	if typeDoc {
		gd.Doc = group(line, 0, "// T doc")
		f.Comments = append(f.Comments, gd.Doc)
		line++
	}
	gd.TokPos = at(line, 0)
	tname := &ast.Ident{NamePos: at(line, 5), Name: "T"}
	st := &ast.StructType{Struct: at(line, 7), Fields: &ast.FieldList{Opening: at(line, 14)}}
	line++
	var fieldPos []token.Pos
	for i, fl := range fields {
		fd := &ast.Field{}
		switch fl.doc {
		case 1:
			fd.Doc = group(line, 1, "// d"+vNum(i))
			f.Comments = append(f.Comments, fd.Doc)
			line++
		case 2:
			f.Comments = append(f.Comments, group(line, 1, "// x"+vNum(i)))
			line += 2
		}
		fd.Names = []*ast.Ident{{NamePos: at(line, 1), Name: "F" + vNum(i)}}
		fd.Type = &ast.Ident{NamePos: at(line, 4), Name: "int"}
		if fl.trailing {
			fd.Comment = group(line, 8, "// t"+vNum(i))
			f.Comments = append(f.Comments, fd.Comment)
		}
		fieldPos = append(fieldPos, fd.Names[0].NamePos)
		st.Fields.List = append(st.Fields.List, fd)
		line++
	}
	st.Fields.Closing = at(line, 0)
	gd.Specs = []ast.Spec{&ast.TypeSpec{Name: tname, Type: st}}
	f.Decls = []ast.Decl{gd}
	return f, fieldPos, tname.NamePos
}

// Verif_C12_Attribution: a struct type (with or without its own doc comment)
// with k fields, each field symbolically with no doc / an attached doc comment
// / a detached comment above it, and with or without a trailing comment. For
// every field: Doc(pos) is exactly the attached doc comment (nothing if there
// is none - in particular never the previous field's trailing comment, and
// never a detached comment), Comment(pos) exactly the trailing comment; the
// type's own Doc is its doc comment.
func Verif_C12_Attribution(k int) {
	typeDoc := verifsym.Bool()
	fields := make([]vFieldLayout, k)
	for i := range fields {
		fields[i] = vFieldLayout{doc: verifsym.IntRange(0, 2), trailing: verifsym.Bool()}
	}
	fset := token.NewFileSet()
	var file *ast.File
	var fieldPos []token.Pos
	var typePos token.Pos
	if verifsym.Symbolic() {
		file, fieldPos, typePos = vAttrAST(fset, typeDoc, fields)
	} else {
		var err error
		file, err = parser.ParseFile(fset, "/src/p/p.go", vAttrSource(typeDoc, fields), parser.ParseComments)
		if err != nil {
			panic(err)
		}
		ts := file.Decls[0].(*ast.GenDecl).Specs[0].(*ast.TypeSpec)
		typePos = ts.Name.NamePos
		for _, fd := range ts.Type.(*ast.StructType).Fields.List {
			fieldPos = append(fieldPos, fd.Names[0].NamePos)
		}
	}
	tpkg := types.NewPackage("example.com/m/p", "p")
	pp := &packages.Package{PkgPath: tpkg.Path(), Name: "p", Types: tpkg, Fset: fset, Syntax: []*ast.File{file},
		TypesInfo: &types.Info{Defs: map[*ast.Ident]types.Object{}, Types: map[ast.Expr]types.TypeAndValue{}}}
	u := VerifNewUniverse(fset, map[string]Package{}, map[string]bool{}, nil, "")
	p := newPkg(pp, u)

	_, tdoc := p.Doc(typePos)
	if typeDoc {
		verifsym.Assert(len(tdoc) == 1 && tdoc[0] == "T doc", "the type's doc comment is not reported")
	} else {
		verifsym.Assert(len(tdoc) == 0, "a type without doc comment gets documentation")
	}
	for i, fl := range fields {
		_, doc := p.Doc(fieldPos[i])
		cm := p.Comment(fieldPos[i])
		if fl.doc == 1 {
			verifsym.Assert(len(doc) == 1 && doc[0] == "d"+vNum(i), "Doc is not exactly the comment group directly above the declaration")
		} else {
			verifsym.Assert(len(doc) == 0, "a declaration without doc comment gets documentation (previous line's trailing comment or a detached comment)")
		}
		if fl.trailing {
			verifsym.Assert(len(cm) == 1 && cm[0] == "t"+vNum(i), "Comment is not exactly the trailing comment on the declaration's line")
		} else {
			verifsym.Assert(len(cm) == 0, "a declaration without trailing comment gets one")
		}
		verifsym.Observe("doc", doc)
		verifsym.Observe("comment", cm)
	}
	verifsym.Reach("end")
}
