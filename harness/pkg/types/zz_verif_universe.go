package types

import (
	"go/token"

	"github.com/octohelm/gengo/pkg/sumfile"
)

// VerifNewUniverse builds a Universe from harness-made packages (overlay only;
// used by the orchestration harnesses in package gengo).
func VerifNewUniverse(fset *token.FileSet, pkgs map[string]Package, local map[string]bool, sums map[string]string, sumDir string) *Universe {
	u := &Universe{fset: fset, pkgs: pkgs, localPkgPaths: local}
	if sums != nil {
		u.sumFile = &sumfile.File{Dir: sumDir, Data: sums}
	}
	return u
}
