package types

import (
	"go/ast"
	"go/constant"
	"go/parser"
	"go/token"
	"go/types"
	"strings"

	"golang.org/x/tools/go/packages"

	"github.com/octohelm/gengo/internal/verifsym"
)

// ---------------------------------------------------------------- C14 (ResultsOf on real programs)
//
// The real go/parser and the real go/types checker run under the engine (they
// are interpreted from their source like the rest of the standard library the
// code under test calls), so a scenario is a Go *source text*: a package of a
// handful of functions whose bodies are chosen, per function, from a menu of
// return / assignment / call shapes (a case split), with the callee of every
// call chosen as well - which gives every call graph over the functions,
// self and mutual recursion included. The source is parsed and type-checked
// (map ranges inside parser and checker in insertion order: go/types'
// result does not depend on them), then the real newPkg indexes it and the real
// ResultsOf runs for every function under the configured map-order mode.
// Natively exactly the same harness code runs.

type vImporter map[string]*types.Package

func (m vImporter) Import(path string) (*types.Package, error) {
	if p, ok := m[path]; ok {
		return p, nil
	}
	return nil, &vErr{"no package " + path}
}

type vErr struct{ s string }

func (e *vErr) Error() string { return e.s }

// vCheckSource parses and type-checks one file of package path; imp resolves imports.
func vCheckSource(fset *token.FileSet, path, name, filename, src string, imp vImporter) *packages.Package {
	verifsym.Provide("real:go/parser.ParseFile", true)
	verifsym.Provide("real:go/format.Node", true)
	verifsym.MapOrderBaseline(true)
	f, err := parser.ParseFile(fset, filename, src, parser.ParseComments)
	if err != nil {
		panic("harness: scenario source does not parse: " + err.Error() + "\n" + src)
	}
	info := &types.Info{
		Types:      map[ast.Expr]types.TypeAndValue{},
		Defs:       map[*ast.Ident]types.Object{},
		Uses:       map[*ast.Ident]types.Object{},
		Selections: map[*ast.SelectorExpr]*types.Selection{},
		Scopes:     map[ast.Node]*types.Scope{},
		Implicits:  map[ast.Node]types.Object{},
		Instances:  map[*ast.Ident]types.Instance{},
	}
	conf := types.Config{Importer: imp}
	tpkg, err := conf.Check(path, fset, []*ast.File{f}, info)
	if err != nil {
		panic("harness: scenario source does not type-check: " + err.Error() + "\n" + src)
	}
	verifsym.MapOrderBaseline(false)
	return &packages.Package{ID: path, PkgPath: path, Name: name, Types: tpkg, Fset: fset, Syntax: []*ast.File{f}, TypesInfo: info,
		GoFiles: []string{filename}, CompiledGoFiles: []string{filename}}
}

// vC14Pkg indexes pp with the real newPkg inside a universe that holds it (as
// the loader's register does).
func vC14Pkg(fset *token.FileSet, pp *packages.Package) *pkgInfo {
	pkgs := map[string]Package{}
	u := VerifNewUniverse(fset, pkgs, map[string]bool{pp.PkgPath: true}, nil, "")
	p := newPkg(pp, u).(*pkgInfo)
	pkgs[pp.PkgPath] = p
	return p
}

const vC14R = `package r

type rErr struct{}

func (rErr) Error() string { return "" }

var ErrR error = rErr{}

type R struct{}

func (R) RM() error { return ErrR }

func (R) RP() (int, error) { return 9, ErrR }
`

const vC14Q = `package q

import "example.com/m/r"

func NewR() r.R { return r.R{} }

type qErr struct{}

func (qErr) Error() string { return "" }

var ErrQ error = qErr{}

func QE() error { return ErrQ }

func QP() (int, error) {
	if ErrQ != nil {
		return 1, ErrQ
	}
	return 2, nil
}

func QR() error { return QE() }

type T struct{}

func (T) TM() error { return ErrQ }
`

const vC14Prelude = `package p

import "example.com/m/q"

var qt q.T

type myErr struct{}

func (myErr) Error() string { return "" }

var errA error = myErr{}

var errB error = myErr{}

type I interface {
	M() error
	N() (int, error)
}

var iface I

type S struct{ err error }

func h(fn func() (int, error)) error {
	_, err := fn()
	return err
}

func h2(fn func() error) (int, error) {
	return 0, fn()
}

func h3(fn func() error) error { return fn() }

func c1() int { return 1 }

func w(err error) error { return err }

func w2(n int, err error) error { return err }

`

// bodies of a `() error` function; %e0 %e1 %p0 are callees
var vC14ErrBodies = []string{
	"return nil",
	"return errA",
	"return E0()",
	"return E1()",
	"_, err := P0()\n\treturn err",
	"return h(func() (int, error) { return 1, errA })",
	"return w(E1())",
	"if errA != nil {\n\t\treturn errA\n\t}\n\treturn errB",
	"var err error\n\terr = E1()\n\treturn err",
	"return iface.M()",
	"s := S{}\n\ts.err = E0()\n\treturn s.err",
	"return w2(P1())",
	"n, err := h2(func() error { return errB })\n\t_ = n\n\treturn err",
	"return func() error { return errA }()",
	"return q.QE()",
	"return q.QR()",
	"_, err := q.QP()\n\treturn err",
	"return qt.TM()",
	"return h3(func() error { return E0() })",
	"return h3(func() error { return E1() })",
	"if errA != nil {\n\t\treturn errA\n\t}\n\treturn E1()",
	"if errB != nil {\n\t\treturn errB\n\t}\n\treturn E0()",
	"return q.NewR().RM()",
	"_, _, _, err := N1()\n\treturn err",
	"if errA != nil {\n\t\treturn myErr{}\n\t}\n\treturn E1()",
	"if errB != nil {\n\t\treturn &myErr{}\n\t}\n\treturn E0()",
}

// bodies of a `() (int, error)` function
var vC14PairBodies = []string{
	"return 1, nil",
	"return 2, errA",
	"return P0()",
	"return P1()",
	"return N0()",
	"if errA != nil {\n\t\treturn 1, nil\n\t}\n\treturn 2, nil",
	"return 3, E0()",
	"x := 4\n\treturn x, nil",
	"return iface.N()",
	"return h2(func() error { return E1() })",
	"return 1 + 1, nil",
	"return q.QP()",
	"return 8, q.QE()",
	"return h2(func() error { return E0() })",
	"return q.NewR().RP()",
	"if errA != nil {\n\t\treturn 5, errA\n\t}\n\treturn P1()",
	"if errB != nil {\n\t\treturn 6, errB\n\t}\n\treturn P0()",
}

// bodies of a `() (r int, err error)` function
var vC14NamedBodies = []string{
	"return",
	"r = 5\n\treturn",
	"r, err = P0()\n\treturn",
	"err = E0()\n\treturn 6, err",
	"return N0()",
	"if errA != nil {\n\t\terr = errA\n\t\treturn\n\t}\n\treturn 7, nil",
}

// bodies of a `() (a, b int, s string, err error)` function (a grouped field followed by others)
var vC14Named4Bodies = []string{
	"a, b, s = 1, 2, \"s\"\n\treturn",
	"return 1, 2, \"s\", nil",
	"a = 3\n\ts = \"t\"\n\terr = E0()\n\treturn",
	"return N1()",
	"b, err = P0()\n\treturn",
	"if errA != nil {\n\t\ts = \"u\"\n\t\treturn\n\t}\n\treturn 4, 5, \"v\", errA",
}

// bodies of a `() any` function (results of type any are followed into callees like errors)
var vC14AnyBodies = []string{
	"return \"a\"",
	"return 1",
	"return A0()",
	"return A1()",
	"if errA != nil {\n\t\treturn \"a\"\n\t}\n\treturn A1()",
	"if errA != nil {\n\t\treturn \"b\"\n\t}\n\treturn A0()",
	"return nil",
	"return E0()",
	"if errA != nil {\n\t\treturn 'x'\n\t}\n\treturn true",
	"return myErr{}",
	"x := A1()\n\treturn x",
}

// bodies of a `() (int, string, error)` function
var vC14TripleBodies = []string{
	"return 1, \"s\", nil",
	"return 1, \"s\", h(func() (int, error) { return c1(), errA })",
	"return T0()",
	"n, err := P0()\n\treturn n, \"t\", err",
	"return c1(), \"u\", h3(func() error { return E1() })",
	"if errA != nil {\n\t\treturn 2, \"v\", errA\n\t}\n\treturn 3, \"w\", E0()",
}

// what ResultsOf must print for the literal-only bodies ("" = not literal-only)
var (
	vC14ErrWant    = map[int]string{0: "(untyped nil)"}
	vC14PairWant   = map[int]string{0: "(1, untyped nil)", 5: "(1 | 2, untyped nil | untyped nil)", 10: "(2, untyped nil)"}
	vC14NamedWant  = map[int]string{}
	vC14Named4Want = map[int]string{1: "(1, 2, \"s\", untyped nil)"}
	vC14TripleWant = map[int]string{0: "(1, \"s\", untyped nil)"}
	vC14AnyWant    = map[int]string{0: "(\"a\")", 1: "(1)", 6: "(untyped nil)", 8: "(120 | true)"}
)

func vC14Func(name, sig, body string) string {
	return "func " + name + "() " + sig + " {\n\t" + body + "\n}\n\n"
}

// vC14Check runs the generic part of the statement on function name.
func vC14Check(p *pkgInfo, fn *types.Func, name string, want string) string {
	verifsym.Assert(fn != nil, "function "+name+" not found")
	if fn == nil {
		return ""
	}
	sig := fn.Type().(*types.Signature)
	var res, res2 FuncResults
	var n, n2 int
	panicked := verifsym.Panics(func() { res, n = p.ResultsOf(fn) })
	verifsym.Assert(!panicked, "ResultsOf("+name+") panics")
	if panicked {
		return ""
	}
	verifsym.Assert(n == sig.Results().Len(), "ResultsOf("+name+"): n is not the declared number of results")
	verifsym.Assert(len(res) == n, "ResultsOf("+name+"): not one list of alternatives per result")
	for i := 0; i < len(res) && i < n; i++ {
		verifsym.Assert(len(res[i]) > 0, "ResultsOf("+name+"): empty list of alternatives")
		declared := sig.Results().At(i).Type()
		for _, alt := range res[i] {
			verifsym.Assert(alt.Type != nil, "ResultsOf("+name+"): alternative without type")
			if alt.Type != nil {
				verifsym.Assert(types.AssignableTo(alt.Type, declared), "ResultsOf("+name+"): alternative "+alt.String()+" is not assignable to the declared result type "+declared.String())
			}
			if alt.Value != nil {
				verifsym.Assert(alt.Value.Kind() != constant.Unknown, "ResultsOf("+name+"): unknown constant")
			}
		}
	}
	s1 := res.String()
	verifsym.Observe("results "+name, s1)
	if want != "" {
		verifsym.Assert(s1 == want, "ResultsOf("+name+") of a literal-only function is "+s1+", want "+want)
	}
	panicked = verifsym.Panics(func() { res2, n2 = p.ResultsOf(fn) })
	verifsym.Assert(!panicked, "second ResultsOf("+name+") panics")
	if !panicked {
		verifsym.Assert(n2 == n && res2.String() == s1, "ResultsOf("+name+") differs on the second call: "+s1+" then "+res2.String())
	}
	return s1
}

// vC14World is a three-package module r <- q <- p, indexed by the real newPkg
// inside one universe.
type vC14World struct {
	p, q, r *pkgInfo
}

func vC14Index(fset *token.FileSet, pp, qq, rr *packages.Package) *vC14World {
	pkgs := map[string]Package{}
	u := VerifNewUniverse(fset, pkgs, map[string]bool{pp.PkgPath: true, qq.PkgPath: true, rr.PkgPath: true}, nil, "")
	w := &vC14World{}
	w.r = newPkg(rr, u).(*pkgInfo)
	pkgs[rr.PkgPath] = w.r
	w.q = newPkg(qq, u).(*pkgInfo)
	pkgs[qq.PkgPath] = w.q
	w.p = newPkg(pp, u).(*pkgInfo)
	pkgs[pp.PkgPath] = w.p
	return w
}

// Verif_C14_ResultsOf: the functions E0 E1 (() error), P0 P1 (() (int, error)),
// N0 (named results), N1 (a grouped named field followed by two more), A0 A1 (() any), T0 (() (int, string, error)) get
// bodies from the menus. `sym` selects which are chosen symbolically (bit i =
// function i; the others get the body of the `fix`-th fixed rotation).
func Verif_C14_ResultsOf(sym int, fix int) {
	names := []string{"E0", "E1", "P0", "P1", "N0", "N1", "A0", "A1", "T0"}
	sigs := []string{"error", "error", "(int, error)", "(int, error)", "(r int, err error)", "(a, b int, s string, err error)", "any", "any", "(int, string, error)"}
	menus := [][]string{vC14ErrBodies, vC14ErrBodies, vC14PairBodies, vC14PairBodies, vC14NamedBodies, vC14Named4Bodies, vC14AnyBodies, vC14AnyBodies, vC14TripleBodies}
	wants := []map[int]string{vC14ErrWant, vC14ErrWant, vC14PairWant, vC14PairWant, vC14NamedWant, vC14Named4Want, vC14AnyWant, vC14AnyWant, vC14TripleWant}
	// fixed rotations: bodies that call into the symbolic ones
	fixed := [][]int{{3, 2, 3, 2, 4, 3, 3, 2, 2}, {1, 6, 6, 4, 2, 2, 7, 10, 3}, {4, 8, 2, 9, 3, 4, 1, 2, 4}, {24, 25, 15, 16, 5, 5, 4, 5, 5}}
	choice := make([]int, len(names))
	src := vC14Prelude
	for i := range names {
		if sym&(1<<i) != 0 {
			choice[i] = verifsym.IntRange(0, len(menus[i])-1)
		} else {
			choice[i] = fixed[fix%len(fixed)][i] % len(menus[i])
		}
		src += vC14Func(names[i], sigs[i], menus[i][choice[i]])
	}
	verifsym.Observe("choice", choice)
	fset := token.NewFileSet()
	rr := vCheckSource(fset, "example.com/m/r", "r", "/src/m/r/r.go", vC14R, nil)
	qq := vCheckSource(fset, "example.com/m/q", "q", "/src/m/q/q.go", vC14Q, vImporter{"example.com/m/r": rr.Types})
	qq.Imports = map[string]*packages.Package{"example.com/m/r": rr}
	// p imports q only: r is reached through q.NewR()
	pp := vCheckSource(fset, "example.com/m/p", "p", "/src/m/p/p.go", src, vImporter{"example.com/m/q": qq.Types})
	pp.Imports = map[string]*packages.Package{"example.com/m/q": qq}

	w := vC14Index(fset, pp, qq, rr)
	p := w.p
	type asked struct {
		of   *pkgInfo
		fn   *types.Func
		name string
		want string
	}
	var all []asked
	// the imported packages' functions: asked of their own package and of the importer
	for _, name := range []string{"QE", "QP", "QR", "NewR"} {
		all = append(all, asked{w.q, w.q.Function(name), "q." + name, ""}, asked{p, w.q.Function(name), "q." + name + " (asked of p)", ""})
	}
	for i, name := range names {
		all = append(all, asked{p, p.Function(name), name, wants[i][choice[i]]})
	}
	for _, name := range []string{"h", "h2", "h3", "w", "w2", "c1"} {
		all = append(all, asked{p, p.Function(name), name, ""})
	}
	// methods are functions of the package too: the interface's and the declared ones
	it := p.Pkg().Scope().Lookup("I").Type().Underlying().(*types.Interface)
	for i := 0; i < it.NumMethods(); i++ {
		all = append(all, asked{p, it.Method(i), "I." + it.Method(i).Name(), ""})
	}
	for _, m := range p.MethodsOf(p.Pkg().Scope().Lookup("myErr").Type().(*types.Named), false) {
		all = append(all, asked{p, m, "myErr." + m.Name(), ""})
	}
	// (MethodsOf lists in Defs order: ask in name order)
	for _, mn := range []string{"RM", "RP"} {
		for _, m := range w.r.MethodsOf(w.r.Pkg().Scope().Lookup("R").Type().(*types.Named), false) {
			if m.Name() == mn {
				all = append(all, asked{w.r, m, "r.R." + m.Name(), ""})
			}
		}
	}
	first := make([]string, len(all))
	for i, a := range all {
		first[i] = vC14Check(a.of, a.fn, a.name, a.want)
	}
	// "the answer is the same on every call": a freshly indexed universe asked in
	// the opposite order must give the same answers (no answer may depend on what
	// was asked before)
	w2 := vC14Index(fset, pp, qq, rr)
	for i := len(all) - 1; i >= 0; i-- {
		a := all[i]
		of := w2.p
		if a.of == w.q {
			of = w2.q
		} else if a.of == w.r {
			of = w2.r
		}
		var res FuncResults
		if !verifsym.Panics(func() { res, _ = of.ResultsOf(a.fn) }) {
			verifsym.Assert(res.String() == first[i], "ResultsOf("+a.name+") depends on what was asked before: "+first[i]+" in one order, "+res.String()+" in a fresh universe asked in the opposite order")
		}
	}
	verifsym.Reach("end")
}

// Verif_C14_Literals: a function whose return statements list only literal
// expressions; the contents of the literals are symbolic (a decimal digit
// string of n bytes, a string literal of n printable bytes without quote and
// backslash, and the choice between true and false). The alternatives must be
// exactly those values in source order.
func Verif_C14_Literals(n int) {
	digits := verifsym.Bytes(n)
	for i, d := range digits {
		verifsym.Assume(verifsym.And(d >= '0', d <= '9'))
		if i == 0 && n > 1 {
			verifsym.Assume(d != '0')
		}
	}
	text := verifsym.Bytes(n)
	for _, c := range text {
		verifsym.Assume(verifsym.And(verifsym.And(c >= ' ', c <= '~'), verifsym.And(c != '"', c != '\\')))
	}
	b := "false"
	if verifsym.Bool() {
		b = "true"
	}
	src := "package p\n\nfunc F(c bool) (int, string, bool) {\n\tif c {\n\t\treturn " + string(digits) + ", \"" + string(text) + "\", " + b + "\n\t}\n\treturn -1, \"z\", !" + b + "\n}\n"
	fset := token.NewFileSet()
	pp := vCheckSource(fset, "example.com/m/p", "p", "/src/m/p/p.go", src, nil)
	p := vC14Pkg(fset, pp)
	fn := p.Function("F")
	var res FuncResults
	var cnt int
	verifsym.Assert(!verifsym.Panics(func() { res, cnt = p.ResultsOf(fn) }), "ResultsOf panics")
	verifsym.Assert(cnt == 3 && len(res) == 3, "three results expected")
	if len(res) == 3 {
		for i := range res {
			verifsym.Assert(len(res[i]) == 2, "two alternatives per position expected")
		}
		if len(res[0]) == 2 && len(res[1]) == 2 && len(res[2]) == 2 {
			v0, v1, v2 := res[0][0].Value, res[1][0].Value, res[2][0].Value
			verifsym.Assert(v0 != nil && v1 != nil && v2 != nil, "first alternatives are constants")
			if v0 != nil && v1 != nil && v2 != nil {
				want := int64(0)
				for _, d := range digits {
					want = want*10 + int64(d-'0')
				}
				got, exact := constant.Int64Val(v0)
				verifsym.Assert(exact && got == want, "integer literal's value differs")
				verifsym.Assert(v1.Kind() == constant.String && constant.StringVal(v1) == string(text), "string literal's value differs")
				verifsym.Assert(v2.Kind() == constant.Bool && constant.BoolVal(v2) == (b == "true"), "boolean literal's value differs")
			}
			w0, w1, w2 := res[0][1].Value, res[1][1].Value, res[2][1].Value
			verifsym.Assert(w0 != nil && w1 != nil && w2 != nil, "second alternatives are constants")
			if w0 != nil && w1 != nil && w2 != nil {
				got, exact := constant.Int64Val(w0)
				verifsym.Assert(exact && got == -1, "-1 expected")
				verifsym.Assert(constant.StringVal(w1) == "z", `"z" expected`)
				verifsym.Assert(constant.BoolVal(w2) == (b != "true"), "negated boolean expected")
			}
		}
	}
	verifsym.Observe("src", strings.Count(src, "\n"))
	verifsym.Reach("end")
}

// ---------------------------------------------------------------- C12 through the real parser
//
// The attribution scenarios of C12 build the *ast.File by hand under the engine.
// Since the real go/parser runs under the engine as well, the same scenarios
// exist in a second form in which the scenario source - including comment texts
// of arbitrary symbolic bytes - goes through the real scanner and parser on
// both sides; nothing about comment attachment is assumed then.

var vRealParser bool

// vParse is parser.ParseFile; with vRealParser set the engine runs the real
// parser (map ranges inside it in insertion order) instead of its contract stub.
func vParse(fset *token.FileSet, filename string, src any, mode parser.Mode) (*ast.File, error) {
	if vRealParser {
		verifsym.Provide("real:go/parser.ParseFile", true)
		verifsym.MapOrderBaseline(true)
		defer verifsym.MapOrderBaseline(false)
	}
	return parser.ParseFile(fset, filename, src, mode)
}

func vWithRealParser(f func()) {
	vRealParser = true
	defer func() { vRealParser = false }()
	f()
}

func Verif_C12_AttributionParsed(k int) { vWithRealParser(func() { Verif_C12_Attribution(k) }) }

func Verif_C12_AttributionDeclsParsed(kind, k int) {
	vWithRealParser(func() { Verif_C12_AttributionDecls(kind, k) })
}

func Verif_C12_DocTextParsed(n, m, multi int) {
	vWithRealParser(func() { Verif_C12_DocText(n, m, multi) })
}

// ---------------------------------------------------------------- C13 on really type-checked source
//
// Verif_C13_Source(k): a package whose source is a fixed set of package-scope
// declarations (types A, B, generic G[P], constants K, functions F) plus k
// further declarations, each a symbolic choice from a menu of shapes that put
// same-named objects into types.Info.Defs (function-local types and constants,
// type parameters named like package-scope types, nested closures, aliases,
// methods with value / pointer receivers on plain and generic types, init, a
// blank function). The source goes through the real parser and the real type
// checker; the real newPkg indexes it under the configured map orders; the
// oracle is the checker's own view: the package scope and the method sets.

var vC13Menu = []string{
	"func f%() {\n\ttype A int\n\t_ = A(0)\n}",
	"func f%() {\n\tconst K = 2\n\t_ = K\n}",
	"func f%[A any](x A) {}",
	"type H%[A any] struct{ v A }",
	"func (A) M%() {}",
	"func (*A) P%() {}",
	"func (G[P]) GM%() {}",
	"func (*G[A]) GP%() {}",
	"type L% = A",
	"func f%() {\n\ttype F int\n\t_ = F(0)\n}",
	"func f%() {\n\tconst A = 1\n\t_ = A\n}",
	"func init() {}",
	"func _() {}",
	"func f%() {\n\ttype B struct{}\n\t_ = func() {\n\t\ttype A B\n\t\t_ = A{}\n\t}\n}",
	"const C% = 3",
	"type T% struct{ A int }",
	"var V% = func() int {\n\ttype K int\n\treturn int(K(1))\n}()",
	"func (b B) BM%() (A int) { return }",
}

func Verif_C13_Source(k int) {
	src := "package p\n\ntype A struct{}\n\ntype B int\n\ntype G[P any] struct{ p P }\n\nconst K = 1\n\nfunc F() {}\n\nvar V int\n\n"
	choice := make([]int, k)
	for i := 0; i < k; i++ {
		choice[i] = verifsym.IntRange(0, len(vC13Menu)-1)
		src += strings.ReplaceAll(vC13Menu[choice[i]], "%", string([]byte{'0' + byte(i)})) + "\n\n"
	}
	verifsym.Observe("choice", choice)
	fset := token.NewFileSet()
	pp := vCheckSource(fset, "example.com/m/p", "p", "/src/m/p/p.go", src, nil)
	p := vC14Pkg(fset, pp)
	scope := pp.Types.Scope()

	nT, nC, nF := 0, 0, 0
	for _, name := range scope.Names() {
		switch o := scope.Lookup(name).(type) {
		case *types.TypeName:
			nT++
			verifsym.Assert(p.Type(name) == o, "Type(name) is not the package-scope type of that name")
			verifsym.Assert(p.Types()[name] == o, "Types() does not hold the package-scope type under its name")
		case *types.Const:
			nC++
			verifsym.Assert(p.Constant(name) == o, "Constant(name) is not the package-scope constant of that name")
			verifsym.Assert(p.Constants()[name] == o, "Constants() does not hold the package-scope constant under its name")
		case *types.Func:
			nF++
			verifsym.Assert(p.Function(name) == o, "Function(name) is not the package-scope function of that name")
			verifsym.Assert(p.Functions()[name] == o, "Functions() does not hold the package-scope function under its name")
		}
	}
	verifsym.Assert(len(p.Types()) == nT, "Types() is not exactly the package-scope type names")
	verifsym.Assert(len(p.Constants()) == nC, "Constants() is not exactly the package-scope constants")
	extra := 0
	for name := range p.Functions() {
		if name != "init" && name != "_" {
			extra++
		}
	}
	verifsym.Assert(extra == nF, "Functions() (init and blank functions aside) is not exactly the package-scope functions")

	// method sets: exactly the methods the checker attached to the type
	for _, tn := range []string{"A", "B", "G"} {
		named := scope.Lookup(tn).Type().(*types.Named)
		for round := 0; round < 2; round++ {
			val := p.MethodsOf(named, false)
			all := p.MethodsOf(named, true)
			nVal := 0
			for i := 0; i < named.NumMethods(); i++ {
				m := named.Method(i)
				_, ptr := m.Type().(*types.Signature).Recv().Type().(*types.Pointer)
				inAll, inVal := 0, 0
				for _, x := range all {
					if x.Name() == m.Name() {
						inAll++
					}
				}
				for _, x := range val {
					if x.Name() == m.Name() {
						inVal++
					}
				}
				verifsym.Assert(inAll == 1, "a declared method is missing from (or listed twice in) MethodsOf(T, true)")
				if ptr {
					verifsym.Assert(inVal == 0, "MethodsOf(T, false) lists a pointer-receiver method")
				} else {
					nVal++
					verifsym.Assert(inVal == 1, "a value-receiver method is missing from (or listed twice in) MethodsOf(T, false)")
				}
			}
			verifsym.Assert(len(all) == named.NumMethods(), "MethodsOf(T, true) is not exactly T's declared methods")
			verifsym.Assert(len(val) == nVal, "MethodsOf(T, false) is not exactly T's value-receiver methods")
		}
	}
	verifsym.Reach("end")
}

// Verif_C12_Layouts(k): k adjacent declarations (no blank line between them,
// so every trailing comment sits on the line directly above the next
// declaration), each chosen from a menu that adds what the attribution
// scenarios do not generate: functions as neighbours, multi-name value specs in
// a const group, var groups, multi-name struct fields, a multi-line composite
// literal with an inner trailing comment, block and detached comments, tag
// lines, and an import spec with a trailing comment directly above the first
// declaration. Parsed by the real go/parser on both sides.
type vLayoutWant struct {
	name    string
	doc     []string
	comment []string // nil = none; "-" as only element = not checked (multi-line declaration)
	tag     string   // expected tag key ("" = none)
}

func vLayoutEntry(kind int, i string) (string, []vLayoutWant) {
	switch kind {
	case 0:
		return "var V" + i + " int\n", []vLayoutWant{{name: "V" + i}}
	case 1:
		return "// dv" + i + "\nvar V" + i + " int // tv" + i + "\n", []vLayoutWant{{name: "V" + i, doc: []string{"dv" + i}, comment: []string{"tv" + i}}}
	case 2:
		return "func F" + i + "() {} // tf" + i + "\n", nil
	case 3:
		return "// df" + i + "\nfunc F" + i + "() {}\n", nil
	case 4:
		return "const (\n\t// da" + i + "\n\tA" + i + ", B" + i + " = 1, 2 // tab" + i + "\n\tD" + i + " = 3\n)\n", []vLayoutWant{
			{name: "A" + i, doc: []string{"da" + i}, comment: []string{"tab" + i}},
			{name: "B" + i, doc: []string{"da" + i}, comment: []string{"tab" + i}},
			{name: "D" + i}}
	case 5:
		return "type T" + i + " struct{} // tt" + i + "\n", []vLayoutWant{{name: "T" + i, comment: []string{"tt" + i}}}
	case 6:
		return "var X" + i + " = []int{\n\t1, // one" + i + "\n}\n", []vLayoutWant{{name: "X" + i, comment: []string{"-"}}}
	case 7:
		return "/* block" + i + " */\ntype U" + i + " int\n", []vLayoutWant{{name: "U" + i, doc: []string{"block" + i}}}
	case 8:
		return "// detached" + i + "\n\ntype W" + i + " int\n", []vLayoutWant{{name: "W" + i}}
	case 9:
		return "var (\n\tG" + i + " int // tg" + i + "\n\tH" + i + " int\n)\n", []vLayoutWant{{name: "G" + i, comment: []string{"tg" + i}}, {name: "H" + i}}
	case 10:
		return "type S" + i + " struct {\n\tP" + i + ", Q" + i + " int // tpq" + i + "\n\t// dr" + i + "\n\tR" + i + " string\n}\n", []vLayoutWant{
			{name: "S" + i, comment: []string{"-"}},
			{name: "P" + i, comment: []string{"tpq" + i}}, {name: "Q" + i, comment: []string{"tpq" + i}},
			{name: "R" + i, doc: []string{"dr" + i}}}
	default:
		return "// +tag" + i + "=1\n// dz" + i + "\nconst Z" + i + " = 0\n", []vLayoutWant{{name: "Z" + i, doc: []string{"dz" + i}, tag: "tag" + i}}
	}
}

const vNumLayouts = 12

func Verif_C12_Layouts(k int) {
	src := "package p\n\nimport \"fmt\" // ti\n"
	var wants []vLayoutWant
	choice := make([]int, k)
	for i := 0; i < k; i++ {
		choice[i] = verifsym.IntRange(0, vNumLayouts-1)
		text, w := vLayoutEntry(choice[i], string([]byte{'0' + byte(i)}))
		src += text
		wants = append(wants, w...)
	}
	src += "var _ = fmt.Sprint\n"
	verifsym.Observe("choice", choice)
	fset := token.NewFileSet()
	var file *ast.File
	var err error
	vWithRealParser(func() { file, err = vParse(fset, "/src/p/p.go", src, parser.ParseComments) })
	if err != nil {
		panic("harness: layout source does not parse: " + err.Error())
	}
	pos := map[string]token.Pos{}
	for _, d := range file.Decls {
		gd, ok := d.(*ast.GenDecl)
		if !ok {
			continue
		}
		for _, sp := range gd.Specs {
			switch x := sp.(type) {
			case *ast.ValueSpec:
				for _, n := range x.Names {
					pos[n.Name] = n.NamePos
				}
			case *ast.TypeSpec:
				pos[x.Name.Name] = x.Name.NamePos
				if st, ok := x.Type.(*ast.StructType); ok {
					for _, f := range st.Fields.List {
						for _, n := range f.Names {
							pos[n.Name] = n.NamePos
						}
					}
				}
			}
		}
	}
	p := vNewPkgFor(fset, file)
	for _, w := range wants {
		at, ok := pos[w.name]
		if !ok {
			panic("harness: declaration not found: " + w.name)
		}
		tags, doc := p.Doc(at)
		verifsym.Assert(vSameLines(doc, w.doc), "Doc of "+w.name+" is not exactly the comment group directly above the declaration (nothing if there is none)")
		if w.tag != "" {
			verifsym.Assert(len(tags) == 1 && len(tags[w.tag]) == 1 && tags[w.tag][0] == "1", "tag line of the doc comment not split off into the tag map")
		} else {
			verifsym.Assert(len(tags) == 0, "tags reported for a declaration without tag lines")
		}
		if len(w.comment) != 1 || w.comment[0] != "-" {
			verifsym.Assert(vSameLines(p.Comment(at), w.comment), "Comment of "+w.name+" is not exactly the trailing comment on the declaration's own line")
		}
	}
	verifsym.Reach("end")
}
