package types

import (
	"go/ast"
	"go/constant"
	"go/parser"
	"go/token"
	"go/types"
	"strings"

	"golang.org/x/tools/go/packages"

	"github.com/octohelm/gengo/internal/verifsym"
)

// ---------------------------------------------------------------- C14 (ResultsOf on real programs)
//
// The real go/parser and the real go/types checker run under the engine (they
// are interpreted from their source like the rest of the standard library the
// code under test calls), so a scenario is a Go *source text*: a package of a
// handful of functions whose bodies are chosen, per function, from a menu of
// return / assignment / call shapes (a case split), with the callee of every
// call chosen as well - which gives every call graph over the functions,
// self and mutual recursion included. The source is parsed and type-checked
// (map ranges inside parser and checker in insertion order: go/types'
// result does not depend on them), then the real newPkg indexes it and the real
// ResultsOf runs for every function under the configured map-order mode.
// Natively exactly the same harness code runs.

type vImporter map[string]*types.Package

func (m vImporter) Import(path string) (*types.Package, error) {
	if p, ok := m[path]; ok {
		return p, nil
	}
	return nil, &vErr{"no package " + path}
}

type vErr struct{ s string }

func (e *vErr) Error() string { return e.s }

// vCheckSource parses and type-checks one file of package path; imp resolves imports.
func vCheckSource(fset *token.FileSet, path, name, filename, src string, imp vImporter) *packages.Package {
	verifsym.Provide("real:go/parser.ParseFile", true)
	verifsym.Provide("real:go/format.Node", true)
	verifsym.MapOrderBaseline(true)
	f, err := parser.ParseFile(fset, filename, src, parser.ParseComments)
	if err != nil {
		panic("harness: scenario source does not parse: " + err.Error() + "\n" + src)
	}
	info := &types.Info{
		Types:      map[ast.Expr]types.TypeAndValue{},
		Defs:       map[*ast.Ident]types.Object{},
		Uses:       map[*ast.Ident]types.Object{},
		Selections: map[*ast.SelectorExpr]*types.Selection{},
		Scopes:     map[ast.Node]*types.Scope{},
		Implicits:  map[ast.Node]types.Object{},
		Instances:  map[*ast.Ident]types.Instance{},
	}
	conf := types.Config{Importer: imp}
	tpkg, err := conf.Check(path, fset, []*ast.File{f}, info)
	if err != nil {
		panic("harness: scenario source does not type-check: " + err.Error() + "\n" + src)
	}
	verifsym.MapOrderBaseline(false)
	return &packages.Package{ID: path, PkgPath: path, Name: name, Types: tpkg, Fset: fset, Syntax: []*ast.File{f}, TypesInfo: info,
		GoFiles: []string{filename}, CompiledGoFiles: []string{filename}}
}

// vC14Pkg indexes pp with the real newPkg inside a universe that holds it (as
// the loader's register does).
func vC14Pkg(fset *token.FileSet, pp *packages.Package) *pkgInfo {
	pkgs := map[string]Package{}
	u := VerifNewUniverse(fset, pkgs, map[string]bool{pp.PkgPath: true}, nil, "")
	p := newPkg(pp, u).(*pkgInfo)
	pkgs[pp.PkgPath] = p
	return p
}

const vC14Q = `package q

type qErr struct{}

func (qErr) Error() string { return "" }

var ErrQ error = qErr{}

func QE() error { return ErrQ }

func QP() (int, error) {
	if ErrQ != nil {
		return 1, ErrQ
	}
	return 2, nil
}

func QR() error { return QE() }

type T struct{}

func (T) TM() error { return ErrQ }
`

const vC14Prelude = `package p

import "example.com/m/q"

var qt q.T

type myErr struct{}

func (myErr) Error() string { return "" }

var errA error = myErr{}

var errB error = myErr{}

type I interface {
	M() error
	N() (int, error)
}

var iface I

type S struct{ err error }

func h(fn func() (int, error)) error {
	_, err := fn()
	return err
}

func h2(fn func() error) (int, error) {
	return 0, fn()
}

func w(err error) error { return err }

func w2(n int, err error) error { return err }

`

// bodies of a `() error` function; %e0 %e1 %p0 are callees
var vC14ErrBodies = []string{
	"return nil",
	"return errA",
	"return E0()",
	"return E1()",
	"_, err := P0()\n\treturn err",
	"return h(func() (int, error) { return 1, errA })",
	"return w(E1())",
	"if errA != nil {\n\t\treturn errA\n\t}\n\treturn errB",
	"var err error\n\terr = E1()\n\treturn err",
	"return iface.M()",
	"s := S{}\n\ts.err = E0()\n\treturn s.err",
	"return w2(P1())",
	"n, err := h2(func() error { return errB })\n\t_ = n\n\treturn err",
	"return func() error { return errA }()",
	"return q.QE()",
	"return q.QR()",
	"_, err := q.QP()\n\treturn err",
	"return qt.TM()",
}

// bodies of a `() (int, error)` function
var vC14PairBodies = []string{
	"return 1, nil",
	"return 2, errA",
	"return P0()",
	"return P1()",
	"return N0()",
	"if errA != nil {\n\t\treturn 1, nil\n\t}\n\treturn 2, nil",
	"return 3, E0()",
	"x := 4\n\treturn x, nil",
	"return iface.N()",
	"return h2(func() error { return E1() })",
	"return 1 + 1, nil",
	"return q.QP()",
	"return 8, q.QE()",
}

// bodies of a `() (r int, err error)` function
var vC14NamedBodies = []string{
	"return",
	"r = 5\n\treturn",
	"r, err = P0()\n\treturn",
	"err = E0()\n\treturn 6, err",
	"return N0()",
	"if errA != nil {\n\t\terr = errA\n\t\treturn\n\t}\n\treturn 7, nil",
}

// what ResultsOf must print for the literal-only bodies ("" = not literal-only)
var (
	vC14ErrWant   = map[int]string{0: "(untyped nil)"}
	vC14PairWant  = map[int]string{0: "(1, untyped nil)", 5: "(1 | 2, untyped nil | untyped nil)", 10: "(2, untyped nil)"}
	vC14NamedWant = map[int]string{}
)

func vC14Func(name, sig, body string) string {
	return "func " + name + "() " + sig + " {\n\t" + body + "\n}\n\n"
}

// vC14Check runs the generic part of the statement on function name.
func vC14Check(p *pkgInfo, fn *types.Func, name string, want string) {
	verifsym.Assert(fn != nil, "function "+name+" not found")
	if fn == nil {
		return
	}
	sig := fn.Type().(*types.Signature)
	var res, res2 FuncResults
	var n, n2 int
	panicked := verifsym.Panics(func() { res, n = p.ResultsOf(fn) })
	verifsym.Assert(!panicked, "ResultsOf("+name+") panics")
	if panicked {
		return
	}
	verifsym.Assert(n == sig.Results().Len(), "ResultsOf("+name+"): n is not the declared number of results")
	verifsym.Assert(len(res) == n, "ResultsOf("+name+"): not one list of alternatives per result")
	for i := 0; i < len(res) && i < n; i++ {
		verifsym.Assert(len(res[i]) > 0, "ResultsOf("+name+"): empty list of alternatives")
		declared := sig.Results().At(i).Type()
		for _, alt := range res[i] {
			verifsym.Assert(alt.Type != nil, "ResultsOf("+name+"): alternative without type")
			if alt.Type != nil {
				verifsym.Assert(types.AssignableTo(alt.Type, declared), "ResultsOf("+name+"): alternative "+alt.String()+" is not assignable to the declared result type "+declared.String())
			}
			if alt.Value != nil {
				verifsym.Assert(alt.Value.Kind() != constant.Unknown, "ResultsOf("+name+"): unknown constant")
			}
		}
	}
	s1 := res.String()
	verifsym.Observe("results "+name, s1)
	if want != "" {
		verifsym.Assert(s1 == want, "ResultsOf("+name+") of a literal-only function is "+s1+", want "+want)
	}
	panicked = verifsym.Panics(func() { res2, n2 = p.ResultsOf(fn) })
	verifsym.Assert(!panicked, "second ResultsOf("+name+") panics")
	if !panicked {
		verifsym.Assert(n2 == n && res2.String() == s1, "ResultsOf("+name+") differs on the second call: "+s1+" then "+res2.String())
	}
}

// Verif_C14_ResultsOf: the functions E0 E1 (() error), P0 P1 (() (int, error)),
// N0 (named results) get bodies from the menus. `sym` selects which of the
// five are chosen symbolically (bit i = function i; the others get body
// `fix`-th of a fixed rotation), so the quick tier explores all pairs and the
// thorough tier all triples of simultaneously varying functions.
func Verif_C14_ResultsOf(sym int, fix int) {
	names := []string{"E0", "E1", "P0", "P1", "N0"}
	sigs := []string{"error", "error", "(int, error)", "(int, error)", "(r int, err error)"}
	menus := [][]string{vC14ErrBodies, vC14ErrBodies, vC14PairBodies, vC14PairBodies, vC14NamedBodies}
	wants := []map[int]string{vC14ErrWant, vC14ErrWant, vC14PairWant, vC14PairWant, vC14NamedWant}
	// fixed rotation: bodies that call into the symbolic ones
	fixed := [][]int{{3, 2, 3, 2, 4}, {1, 6, 6, 4, 2}, {4, 8, 2, 9, 3}}
	choice := make([]int, len(names))
	src := vC14Prelude
	for i := range names {
		if sym&(1<<i) != 0 {
			choice[i] = verifsym.IntRange(0, len(menus[i])-1)
		} else {
			choice[i] = fixed[fix%len(fixed)][i] % len(menus[i])
		}
		src += vC14Func(names[i], sigs[i], menus[i][choice[i]])
	}
	verifsym.Observe("choice", choice)
	fset := token.NewFileSet()
	qq := vCheckSource(fset, "example.com/m/q", "q", "/src/m/q/q.go", vC14Q, nil)
	pp := vCheckSource(fset, "example.com/m/p", "p", "/src/m/p/p.go", src, vImporter{"example.com/m/q": qq.Types})
	pp.Imports = map[string]*packages.Package{"example.com/m/q": qq}
	pkgs := map[string]Package{}
	u := VerifNewUniverse(fset, pkgs, map[string]bool{pp.PkgPath: true, qq.PkgPath: true}, nil, "")
	pq := newPkg(qq, u).(*pkgInfo)
	pkgs[qq.PkgPath] = pq
	p := newPkg(pp, u).(*pkgInfo)
	pkgs[pp.PkgPath] = p
	// the imported package's functions: asked of their own package and of the importer
	for _, name := range []string{"QE", "QP", "QR"} {
		vC14Check(pq, pq.Function(name), "q."+name, "")
		vC14Check(p, pq.Function(name), "q."+name+" (asked of p)", "")
	}
	for i, name := range names {
		vC14Check(p, p.Function(name), name, wants[i][choice[i]])
	}
	for _, name := range []string{"h", "h2", "w", "w2"} {
		vC14Check(p, p.Function(name), name, "")
	}
	// methods are functions of the package too: the interface's and the declared one
	it := p.Pkg().Scope().Lookup("I").Type().Underlying().(*types.Interface)
	for i := 0; i < it.NumMethods(); i++ {
		vC14Check(p, it.Method(i), "I."+it.Method(i).Name(), "")
	}
	for _, m := range p.MethodsOf(p.Pkg().Scope().Lookup("myErr").Type().(*types.Named), false) {
		vC14Check(p, m, "myErr."+m.Name(), "")
	}
	verifsym.Reach("end")
}

// Verif_C14_Literals: a function whose return statements list only literal
// expressions; the contents of the literals are symbolic (a decimal digit
// string of n bytes, a string literal of n printable bytes without quote and
// backslash, and the choice between true and false). The alternatives must be
// exactly those values in source order.
func Verif_C14_Literals(n int) {
	digits := verifsym.Bytes(n)
	for i, d := range digits {
		verifsym.Assume(verifsym.And(d >= '0', d <= '9'))
		if i == 0 && n > 1 {
			verifsym.Assume(d != '0')
		}
	}
	text := verifsym.Bytes(n)
	for _, c := range text {
		verifsym.Assume(verifsym.And(verifsym.And(c >= ' ', c <= '~'), verifsym.And(c != '"', c != '\\')))
	}
	b := "false"
	if verifsym.Bool() {
		b = "true"
	}
	src := "package p\n\nfunc F(c bool) (int, string, bool) {\n\tif c {\n\t\treturn " + string(digits) + ", \"" + string(text) + "\", " + b + "\n\t}\n\treturn -1, \"z\", !" + b + "\n}\n"
	fset := token.NewFileSet()
	pp := vCheckSource(fset, "example.com/m/p", "p", "/src/m/p/p.go", src, nil)
	p := vC14Pkg(fset, pp)
	fn := p.Function("F")
	var res FuncResults
	var cnt int
	verifsym.Assert(!verifsym.Panics(func() { res, cnt = p.ResultsOf(fn) }), "ResultsOf panics")
	verifsym.Assert(cnt == 3 && len(res) == 3, "three results expected")
	if len(res) == 3 {
		for i := range res {
			verifsym.Assert(len(res[i]) == 2, "two alternatives per position expected")
		}
		if len(res[0]) == 2 && len(res[1]) == 2 && len(res[2]) == 2 {
			v0, v1, v2 := res[0][0].Value, res[1][0].Value, res[2][0].Value
			verifsym.Assert(v0 != nil && v1 != nil && v2 != nil, "first alternatives are constants")
			if v0 != nil && v1 != nil && v2 != nil {
				want := int64(0)
				for _, d := range digits {
					want = want*10 + int64(d-'0')
				}
				got, exact := constant.Int64Val(v0)
				verifsym.Assert(exact && got == want, "integer literal's value differs")
				verifsym.Assert(v1.Kind() == constant.String && constant.StringVal(v1) == string(text), "string literal's value differs")
				verifsym.Assert(v2.Kind() == constant.Bool && constant.BoolVal(v2) == (b == "true"), "boolean literal's value differs")
			}
			w0, w1, w2 := res[0][1].Value, res[1][1].Value, res[2][1].Value
			verifsym.Assert(w0 != nil && w1 != nil && w2 != nil, "second alternatives are constants")
			if w0 != nil && w1 != nil && w2 != nil {
				got, exact := constant.Int64Val(w0)
				verifsym.Assert(exact && got == -1, "-1 expected")
				verifsym.Assert(constant.StringVal(w1) == "z", `"z" expected`)
				verifsym.Assert(constant.BoolVal(w2) == (b != "true"), "negated boolean expected")
			}
		}
	}
	verifsym.Observe("src", strings.Count(src, "\n"))
	verifsym.Reach("end")
}
