package types

import (
	"go/ast"
	"go/token"
	"go/types"
	"os"
	"path/filepath"

	"golang.org/x/mod/sumdb/dirhash"
	"golang.org/x/tools/go/packages"

	"github.com/octohelm/gengo/internal/verifsym"
)

// Verif_C13_Imports: a module of n packages p0..p{n-1} with a symbolic acyclic
// import graph (p_i may import p_j for j > i, each edge a symbolic choice) and a
// symbolic set of requested entrypoints. Under the engine packages.Load is a
// contract stub returning harness-built *packages.Package values for the
// entrypoints; natively the same scenario is written out as a temporary module
// and loaded by the real go/packages. The real Load/register/newPkg run in both.
//
// For every loaded package p and every import path i of p: p.Imports()[i] is
// the same non-nil Package that Universe.Package(i) returns; every package of
// the graph reachable from an entrypoint is registered; LocalPkgPaths() lists
// the module's loaded packages in sorted order, flagged direct iff requested;
// the sum table has an entry for every local package.
func Verif_C13_Imports(n int) { vImports(n, false) }

// Verif_C13_ImportsChain: a long chain pa -> pb -> ... (n up to 14 packages, only
// the first requested) plus one more edge and one more requested package, each
// chosen by case split over every possibility.
func Verif_C13_ImportsChain(n int) { vImports(n, true) }

// vBlobKB: size of an extra non-Go file in the first package's directory.
var vBlobKB int

// Verif_C13_BigFile(kb): three packages in a chain; the first package's
// directory also holds a kb KiB file: the sum
// recorded for the package is the hash of the whole directory content.
func Verif_C13_BigFile(kb int) {
	vBlobKB = kb
	vImports(3, true)
	vBlobKB = 0
}

func vBlob() string {
	line := "0123456789abcdef0123456789abcdef0123456789abcdef0123456789abcde\n" // 64 bytes
	block := ""
	for i := 0; i < 16; i++ {
		block += line
	}
	s := block
	for len(s) < vBlobKB*1024 {
		s += s
	}
	return s[:vBlobKB*1024]
}

func vImports(n int, sparse bool) {
	all := []string{"pa", "pb", "pc", "pd", "pe", "pf", "pg", "ph", "pi", "pj", "pk", "pl", "pm", "pn"}
	verifsym.Assume(n <= len(all))
	if !sparse {
		verifsym.Assume(n <= 5)
	}
	names := all[:n]
	mod := "example.com/m"
	edge := make([][]bool, n)
	direct := make([]bool, n)
	if sparse {
		verifsym.Assume(n >= 3)
		for i := range edge {
			edge[i] = make([]bool, n)
			if i+1 < n {
				edge[i][i+1] = true
			}
		}
		// the chain may be cut at one place (then the tail is only reachable through the extra edge / request)
		if cut := verifsym.IntRange(0, n-1); cut+1 < n {
			edge[cut][cut+1] = false
		}
		ei := verifsym.IntRange(0, n-3)
		ej := verifsym.IntRange(ei+2, n-1)
		edge[ei][ej] = true
		direct[0] = true
		direct[verifsym.IntRange(0, n-1)] = true
	} else {
		for i := range edge {
			edge[i] = make([]bool, n)
			for j := i + 1; j < n; j++ {
				edge[i][j] = verifsym.Bool()
			}
		}
		any := false
		for i := range direct {
			direct[i] = verifsym.Bool()
			any = any || direct[i]
		}
		verifsym.Assume(any)
	}

	var u *Universe
	var err error
	root := "/vfs/m"
	if !verifsym.Symbolic() {
		root = verifsym.FSRoot() + "/m"
	}
	// symbolically, the first package is the module's root package (import path = module path, directory = module directory)
	rootPkg := !sparse && verifsym.Bool()
	// symbolically, the last package lives in a nested directory whose path repeats
	// the module path (example.com/m/cmd/example.com/m): legal, and a trap for
	// code that derives the directory by textual surgery on the import path
	nestedLast := !sparse && n >= 2 && n <= 3 && verifsym.Bool()
	rel := func(i int) string {
		if nestedLast && i == n-1 {
			return "cmd/" + mod
		}
		return names[i]
	}
	pp := func(i int) string {
		if rootPkg && i == 0 {
			return mod
		}
		return mod + "/" + rel(i)
	}
	pd := func(i int) string {
		if rootPkg && i == 0 {
			return root
		}
		return root + "/" + rel(i)
	}
	var patterns []string
	for i, d := range direct {
		if d {
			patterns = append(patterns, pp(i))
		}
	}
	if verifsym.Symbolic() {
		module := &packages.Module{Path: mod, Dir: root, GoVersion: "1.24"}
		build := func(cfg *packages.Config) []*packages.Package {
			pkgs := make([]*packages.Package, n)
			for i := range pkgs {
				// one source file per package, registered in the FileSet Load configured
				tf := cfg.Fset.AddFile(pd(i)+"/"+names[i]+".go", -1, 100)
				file := &ast.File{Package: token.Pos(tf.Base()), Name: ast.NewIdent(names[i]), FileStart: token.Pos(tf.Base()), FileEnd: token.Pos(tf.Base() + 100)}
				pkgs[i] = &packages.Package{ID: pp(i), PkgPath: pp(i), Name: names[i], Dir: pd(i),
					Module: module, Imports: map[string]*packages.Package{}, Types: types.NewPackage(pp(i), names[i]),
					TypesInfo: &types.Info{}, Fset: cfg.Fset, Syntax: []*ast.File{file}}
			}
			for i := range pkgs {
				for j := i + 1; j < n; j++ {
					if edge[i][j] {
						pkgs[i].Imports[pkgs[j].PkgPath] = pkgs[j]
					}
				}
			}
			// `go list -deps` (which go/packages drives) lists dependencies before their
			// importers, and the roots come back in that order: mirror it
			var roots []*packages.Package
			for i := n - 1; i >= 0; i-- {
				if direct[i] {
					roots = append(roots, pkgs[i])
				}
			}
			return roots
		}
		// the package directories as the filesystem model sees them (for the directory hashes)
		for i, nm := range names {
			verifsym.FSPut(pd(i)+"/"+nm+".go", "package "+nm+"\n")
			verifsym.FSPut(pd(i)+"/.hidden.json", "{}\n")
		}
		if vBlobKB > 0 {
			verifsym.FSPut(pd(0)+"/blob.bin", vBlob())
		}
		verifsym.Provide("packages.Load", build)
		u, err = Load(patterns)
	} else {
		verifsym.FSPut(root+"/go.mod", "module "+mod+"\n\ngo 1.24\n")
		for i, nm := range names {
			src := "package " + nm + "\n"
			for j := i + 1; j < n; j++ {
				if edge[i][j] {
					src += "\nimport _ \"" + pp(j) + "\"\n"
				}
			}
			verifsym.FSPut(filepath.Join(pd(i), nm+".go"), src)
			verifsym.FSPut(filepath.Join(pd(i), ".hidden.json"), "{}\n") // a dot-file is part of the directory too
		}
		if vBlobKB > 0 {
			verifsym.FSPut(filepath.Join(pd(0), "blob.bin"), vBlob())
		}
		os.Setenv("GOFLAGS", "-mod=mod")
		u, err = Load(patterns, WithDir(root))
	}
	verifsym.Assert(err == nil && u != nil, "Load fails")
	if u == nil {
		return
	}
	// reachable set
	reach := make([]bool, n)
	for i := range reach {
		reach[i] = direct[i]
	}
	for i := 0; i < n; i++ {
		for j := i + 1; j < n; j++ {
			if reach[i] && edge[i][j] {
				reach[j] = true
			}
		}
	}
	for i := range names {
		path := pp(i)
		p := u.Package(path)
		verifsym.Assert((p != nil) == reach[i], "the set of registered packages is not the set reachable from the entrypoints")
		if p == nil {
			continue
		}
		verifsym.Assert(p.SourceDir() == pd(i), "SourceDir() is not the directory holding the package's files")
		if fs := p.Files(); len(fs) > 0 {
			verifsym.Assert(u.LocateInPackage(fs[0].Package) == p, "LocateInPackage(pos) is not the package whose file contains pos")
		} else {
			verifsym.Assert(false, "harness: a loaded package without files")
		}
		nimp := 0
		for j := i + 1; j < n; j++ {
			if edge[i][j] {
				ipath := pp(j)
				imp, ok := p.Imports()[ipath]
				verifsym.Assert(ok, "an import path of the package is missing from Imports()")
				verifsym.Assert(imp != nil, "Imports() maps an import path to a nil Package")
				verifsym.Assert(imp == u.Package(ipath), "Imports() and Universe.Package disagree")
				nimp++
			}
		}
		count := 0
		for k := range p.Imports() {
			if len(k) > len(mod) && k[:len(mod)] == mod {
				count++
			}
		}
		verifsym.Assert(count == nimp, "Imports() lists a module package that is not imported")
		want, herr := dirhash.HashDir(pd(i), "", dirhash.Hash1)
		verifsym.Assert(herr == nil && want != "", "harness: cannot hash the package directory")
		verifsym.Assert(u.SumFile().Sum(path) == want, "the sum recorded for a local package is not the hash of its directory at load time")
	}
	prev := ""
	nlocal := 0
	for path, d := range u.LocalPkgPaths() {
		verifsym.Assert(prev < path, "LocalPkgPaths is not in sorted order")
		prev = path
		nlocal++
		for i := range names {
			if path == pp(i) {
				verifsym.Assert(d == direct[i], "a package is flagged direct although it was not requested (or the reverse)")
			}
		}
	}
	want := 0
	for _, r := range reach {
		if r {
			want++
		}
	}
	verifsym.Assert(nlocal == want, "LocalPkgPaths is not exactly the loaded packages of the module")
	verifsym.Reach("end")
}
