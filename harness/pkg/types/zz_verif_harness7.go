package types

import (
	"go/ast"
	"go/parser"
	"go/token"

	"github.com/octohelm/gengo/internal/verifsym"
)

// ---------------------------------------------------------------- C12 (both halves together)

// vCommentText: n printable ASCII bytes, no blank at either end (so that
// go/ast's trimming of trailing blanks is not in play), not "go:"-prefixed
// unless the harness wants it.
func vCommentText(n int) string {
	b := verifsym.Bytes(n)
	for j, c := range b {
		verifsym.Assume(verifsym.And(c >= 0x20, c < 0x7F))
		if j == 0 || j == n-1 {
			verifsym.Assume(c != ' ')
		}
	}
	return string(b)
}

func vFiller(n int) string {
	s := ""
	for i := 0; i < n; i++ {
		s += "x"
	}
	return s
}

func vIsGoPrefixed(t string) bool {
	return len(t) >= 3 && t[0] == 'g' && t[1] == 'o' && t[2] == ':'
}

// Verif_C12_DocText(n, m, multi): a struct (multi = 1: the fields are `F0, G0 int` and `F1, G1 int`)
//
//	type T struct {
//		// <a: n bytes>
//		// <b: n bytes>
//		F0 int
//		F1 int // <c: m bytes>
//	}
//
// with arbitrary comment texts. Doc(F0) must be exactly the two lines of the
// group above it, classified as the statement says (tag lines into the map, the
// others in order; a line starting with "go:" is not reported); Doc(F1) nothing;
// Comment(F1) exactly the trailing text; Comment(F0) nothing.
//
// Under the engine the positions and the line table come from a skeleton of the
// same shape (the comment bytes are not newlines, so the lines are the same);
// natively the real text is parsed by go/parser.
func Verif_C12_DocText(n, m, multi int) {
	a, b, c := vCommentText(n), vCommentText(n), vCommentText(m)
	mk := func(a, b, c string) string {
		names0, names1 := "F0", "F1"
		if multi == 1 {
			names0, names1 = "F0, G0", "F1, G1"
		}
		return "package p\n\ntype T struct {\n\t// " + a + "\n\t// " + b + "\n\t" + names0 + " int\n\t" + names1 + " int // " + c + "\n}\n"
	}
	fset := token.NewFileSet()
	var file *ast.File
	var f0, f1, g0, g1 token.Pos
	if verifsym.Symbolic() && !vRealParser {
		src := vNewSrc(fset, mk(vFiller(n), vFiller(n), vFiller(m)))
		file = src.file()
		gd := &ast.GenDecl{Tok: token.TYPE, TokPos: src.pos("type T struct", token.NoPos)}
		st := &ast.StructType{Struct: gd.TokPos + 7, Fields: &ast.FieldList{Opening: gd.TokPos + 14}}
		pa := src.pos("// ", token.NoPos)
		pb := src.pos("// ", pa+1)
		f0 = src.pos("F0", token.NoPos)
		f1 = src.pos("F1", token.NoPos)
		t0, t1 := f0+3, f1+3
		pc := src.pos("// ", f1)
		doc := &ast.CommentGroup{List: []*ast.Comment{{Slash: pa, Text: "// " + a}, {Slash: pb, Text: "// " + b}}}
		tr := &ast.CommentGroup{List: []*ast.Comment{{Slash: pc, Text: "// " + c}}}
		file.Comments = []*ast.CommentGroup{doc, tr}
		fd0 := &ast.Field{Doc: doc, Names: []*ast.Ident{{NamePos: f0, Name: "F0"}}}
		fd1 := &ast.Field{Names: []*ast.Ident{{NamePos: f1, Name: "F1"}}, Comment: tr}
		if multi == 1 {
			g0, g1 = src.pos("G0", token.NoPos), src.pos("G1", token.NoPos)
			fd0.Names = append(fd0.Names, &ast.Ident{NamePos: g0, Name: "G0"})
			fd1.Names = append(fd1.Names, &ast.Ident{NamePos: g1, Name: "G1"})
			t0, t1 = g0+3, g1+3
		}
		fd0.Type = &ast.Ident{NamePos: t0, Name: "int"}
		fd1.Type = &ast.Ident{NamePos: t1, Name: "int"}
		st.Fields.List = []*ast.Field{fd0, fd1}
		st.Fields.Closing = token.Pos(src.tf.Base() + len(src.text) - 2)
		gd.Specs = []ast.Spec{&ast.TypeSpec{Name: &ast.Ident{NamePos: gd.TokPos + 5, Name: "T"}, Type: st}}
		file.Decls = []ast.Decl{gd}
	} else {
		var err error
		file, err = vParse(fset, "/src/p/p.go", mk(a, b, c), parser.ParseComments)
		if err != nil {
			panic(err)
		}
		fl := file.Decls[0].(*ast.GenDecl).Specs[0].(*ast.TypeSpec).Type.(*ast.StructType).Fields.List
		f0, f1 = fl[0].Names[0].NamePos, fl[1].Names[0].NamePos
		if multi == 1 {
			g0, g1 = fl[0].Names[1].NamePos, fl[1].Names[1].NamePos
		}
	}
	p := vNewPkgFor(fset, file)

	var lines []string
	for _, t := range []string{a, b} {
		if !vIsGoPrefixed(t) {
			lines = append(lines, t)
		}
	}
	wantTags, wantOthers := vRefTags(lines, []byte{'+', '@'})
	tags, others := p.Doc(f0)
	total := 0
	for _, vs := range tags {
		total += len(vs)
	}
	verifsym.Assert(total == len(wantTags), "Doc: number of tag values differs from the number of tag lines of the group above")
	verifsym.Assert(len(others) == len(wantOthers), "Doc: number of non-tag lines differs from the group above")
	for i := range wantOthers {
		if i < len(others) {
			verifsym.Assert(others[i] == wantOthers[i], "Doc: non-tag line changed or reordered")
		}
	}
	for i, tg := range wantTags {
		pos := 0
		for j := 0; j < i; j++ {
			if wantTags[j].key == tg.key {
				pos++
			}
		}
		vs := tags[tg.key]
		verifsym.Assert(len(vs) > pos, "Doc: tag value missing")
		if len(vs) > pos {
			verifsym.Assert(vs[pos] == tg.value, "Doc: tag value differs or out of order")
		}
	}
	t1, o1 := p.Doc(f1)
	verifsym.Assert(len(t1) == 0 && len(o1) == 0, "a declaration without doc comment gets documentation")
	verifsym.Assert(len(p.Comment(f0)) == 0, "a declaration without trailing comment gets one")
	cm := p.Comment(f1)
	if vIsGoPrefixed(c) {
		verifsym.Assert(len(cm) == 0, "Comment: a go: line is reported")
	} else {
		verifsym.Assert(len(cm) == 1 && cm[0] == c, "Comment is not exactly the trailing comment on the declaration's line")
	}
	if multi == 1 {
		// every name of a multi-name field has the field's documentation and trailing comment
		tg, og := p.Doc(g0)
		n2 := 0
		for _, vs := range tg {
			n2 += len(vs)
		}
		verifsym.Assert(n2 == total && len(og) == len(others), "the second name of a multi-name field has other documentation than the first")
		for i := range others {
			if i < len(og) {
				verifsym.Assert(og[i] == others[i], "the second name of a multi-name field has other documentation than the first")
			}
		}
		cg := p.Comment(g1)
		verifsym.Assert(len(cg) == len(cm), "the second name of a multi-name field has another trailing comment than the first")
		t3, o3 := p.Doc(g1)
		verifsym.Assert(len(t3) == 0 && len(o3) == 0, "a declaration without doc comment gets documentation")
	}
	verifsym.Observe("others", others)
	verifsym.Observe("ntags", total)
	verifsym.Observe("comment", cm)
	verifsym.Reach("end")
}

// Verif_C12_LineWrap(base): two declarations far apart -
//
//	// +tag=a
//	// doc A
//	type A int
//	<base + d blank lines, d = 0..8 by case split>
//	type B int // tb
//
// B has no documentation however many lines lie in between (base is chosen so
// that the distance crosses 2^8 or 2^16 lines), A keeps its own, and B's
// trailing comment is B's.
func Verif_C12_LineWrap(base int) {
	gap := base + verifsym.IntRange(0, 8)
	blank := make([]byte, gap)
	for i := range blank {
		blank[i] = '\n'
	}
	text := "package p\n\n// +tag=a\n// doc A\ntype A int\n" + string(blank) + "type B int // tb\n"
	fset := token.NewFileSet()
	var file *ast.File
	var pa, pb token.Pos
	if verifsym.Symbolic() && !vRealParser {
		src := vNewSrc(fset, text)
		file = src.file()
		c1 := src.pos("// +tag=a", token.NoPos)
		c2 := src.pos("// doc A", token.NoPos)
		ta := src.pos("type A int", token.NoPos)
		tb := token.Pos(src.tf.Base() + len(text) - len("type B int // tb\n"))
		doc := &ast.CommentGroup{List: []*ast.Comment{{Slash: c1, Text: "// +tag=a"}, {Slash: c2, Text: "// doc A"}}}
		tr := &ast.CommentGroup{List: []*ast.Comment{{Slash: tb + 11, Text: "// tb"}}}
		file.Comments = []*ast.CommentGroup{doc, tr}
		pa, pb = ta+5, tb+5
		da := &ast.GenDecl{Doc: doc, Tok: token.TYPE, TokPos: ta, Specs: []ast.Spec{&ast.TypeSpec{Name: &ast.Ident{NamePos: pa, Name: "A"}, Type: &ast.Ident{NamePos: pa + 2, Name: "int"}}}}
		db := &ast.GenDecl{Tok: token.TYPE, TokPos: tb, Specs: []ast.Spec{&ast.TypeSpec{Name: &ast.Ident{NamePos: pb, Name: "B"}, Type: &ast.Ident{NamePos: pb + 2, Name: "int"}, Comment: tr}}}
		file.Decls = []ast.Decl{da, db}
	} else {
		var err error
		file, err = vParse(fset, "/src/p/p.go", text, parser.ParseComments)
		if err != nil {
			panic(err)
		}
		pa = file.Decls[0].(*ast.GenDecl).Specs[0].(*ast.TypeSpec).Name.NamePos
		pb = file.Decls[1].(*ast.GenDecl).Specs[0].(*ast.TypeSpec).Name.NamePos
	}
	p := vNewPkgFor(fset, file)
	tags, lines := p.Doc(pa)
	verifsym.Assert(len(tags) == 1 && len(tags["tag"]) == 1 && tags["tag"][0] == "a" && len(lines) == 1 && lines[0] == "doc A", "Doc is not exactly the comment group directly above the declaration")
	tb, lb := p.Doc(pb)
	verifsym.Assert(len(tb) == 0 && len(lb) == 0, "a declaration without doc comment gets documentation (a comment group many lines above)")
	cb := p.Comment(pb)
	verifsym.Assert(len(cb) == 1 && cb[0] == "tb", "Comment is not exactly the trailing comment on the declaration's line")
	verifsym.Assert(len(p.Comment(pa)) == 0, "a declaration without trailing comment gets one")
	verifsym.Observe("docB", lb)
	verifsym.Reach("end")
}
