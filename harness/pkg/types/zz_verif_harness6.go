package types

import (
	"go/ast"
	"go/parser"
	"go/token"

	"github.com/octohelm/gengo/internal/verifsym"
)

// ---------------------------------------------------------------- C12 (attribution, declarations)

// vDeclSource renders k declarations of the given kind:
//
//	kind 0: const ( C0 = 0 ... )       one parenthesised group, docs on the specs
//	kind 1: type ( T0 int ... )        one parenthesised group
//	kind 2: var V0 = 0 / var V1 = 1    k ungrouped declarations on adjacent lines, docs on the GenDecls
func vDeclLine(kind, i int, multiline bool) string {
	switch kind {
	case 0:
		return "\tC" + vNum(i) + " = " + vNum(i)
	case 1:
		if multiline {
			return "\tT" + vNum(i) + " struct {\n\t\tX" + vNum(i) + " int\n\t}"
		}
		return "\tT" + vNum(i) + " int"
	}
	if multiline {
		return "var V" + vNum(i) + " = []int{\n\t" + vNum(i) + ",\n}"
	}
	return "var V" + vNum(i) + " = " + vNum(i)
}

func vDeclSource(kind int, groupDoc, parenComment bool, decls []vFieldLayout) string {
	s := "package p\n\n"
	indent := "\t"
	if kind == 2 {
		indent = ""
	} else {
		if groupDoc {
			s += "// G doc\n"
		}
		if kind == 0 {
			s += "const ("
		} else {
			s += "type ("
		}
		if parenComment {
			s += " // paren"
		}
		s += "\n"
	}
	for i, d := range decls {
		s += vDocText(indent, i, d.doc)
		s += vDeclLine(kind, i, d.multiline && kind != 0)
		if d.trailing {
			s += " // t" + vNum(i)
		}
		s += "\n"
	}
	if kind != 2 {
		s += ")\n"
	}
	return s
}

// vDeclAST builds the AST go/parser produces for vDeclSource (positions taken from the source text).
func vDeclAST(fset *token.FileSet, kind int, groupDoc, parenComment bool, decls []vFieldLayout) (*ast.File, []token.Pos) {
	src := vNewSrc(fset, vDeclSource(kind, groupDoc, parenComment, decls))
	f := src.file()
	tok := []token.Token{token.CONST, token.TYPE, token.VAR}[kind]
	var pos []token.Pos
	var gd *ast.GenDecl
	if kind != 2 {
		kw := "const ("
		if kind == 1 {
			kw = "type ("
		}
		gd = &ast.GenDecl{Tok: tok, TokPos: src.pos(kw, token.NoPos)}
		gd.Lparen = gd.TokPos + token.Pos(len(kw)-1)
		if groupDoc {
			gd.Doc = src.group("// G doc", token.NoPos)
			f.Comments = append(f.Comments, gd.Doc)
		}
		if parenComment {
			f.Comments = append(f.Comments, src.group("// paren", token.NoPos))
		}
	}
	indent := "\t"
	if kind == 2 {
		indent = ""
	}
	for i, d := range decls {
		var doc *ast.CommentGroup
		switch d.doc {
		case 1:
			doc = src.group("// d"+vNum(i), token.NoPos)
			f.Comments = append(f.Comments, doc)
		case 2:
			f.Comments = append(f.Comments, src.group("// x"+vNum(i), token.NoPos))
		case 3:
			doc = src.group("/* m"+vNum(i)+"a\n"+indent+"m"+vNum(i)+"b */", token.NoPos)
			f.Comments = append(f.Comments, doc)
		}
		multiline := d.multiline && kind != 0
		var spec ast.Spec
		var namePos token.Pos
		var trailing *ast.CommentGroup
		switch kind {
		case 0:
			namePos = src.pos("\tC"+vNum(i)+" = ", token.NoPos) + 1
			spec = &ast.ValueSpec{Doc: doc, Names: []*ast.Ident{{NamePos: namePos, Name: "C" + vNum(i)}},
				Values: []ast.Expr{&ast.BasicLit{ValuePos: namePos + 5, Kind: token.INT, Value: vNum(i)}}}
		case 1:
			namePos = src.pos("\tT"+vNum(i)+" ", token.NoPos) + 1
			ts := &ast.TypeSpec{Doc: doc, Name: &ast.Ident{NamePos: namePos, Name: "T" + vNum(i)}}
			if multiline {
				inner := &ast.Field{Names: []*ast.Ident{{NamePos: src.pos("X"+vNum(i)+" int", namePos), Name: "X" + vNum(i)}}}
				inner.Type = &ast.Ident{NamePos: inner.Names[0].NamePos + 3, Name: "int"}
				ts.Type = &ast.StructType{Struct: namePos + 3, Fields: &ast.FieldList{Opening: namePos + 10, List: []*ast.Field{inner}, Closing: src.pos("\t}", namePos) + 1}}
			} else {
				ts.Type = &ast.Ident{NamePos: namePos + 3, Name: "int"}
			}
			spec = ts
		case 2:
			namePos = src.pos("var V"+vNum(i)+" = ", token.NoPos) + 4
			vs := &ast.ValueSpec{Names: []*ast.Ident{{NamePos: namePos, Name: "V" + vNum(i)}}}
			if multiline {
				lit := &ast.CompositeLit{Type: &ast.ArrayType{Lbrack: namePos + 5, Elt: &ast.Ident{NamePos: namePos + 7, Name: "int"}}, Lbrace: namePos + 10}
				lit.Elts = []ast.Expr{&ast.BasicLit{ValuePos: src.pos("\t"+vNum(i)+",", namePos) + 1, Kind: token.INT, Value: vNum(i)}}
				lit.Rbrace = src.pos("\n}", namePos) + 1
				vs.Values = []ast.Expr{lit}
			} else {
				vs.Values = []ast.Expr{&ast.BasicLit{ValuePos: namePos + 5, Kind: token.INT, Value: vNum(i)}}
			}
			spec = vs
		}
		if d.trailing {
			trailing = src.group("// t"+vNum(i), namePos)
			f.Comments = append(f.Comments, trailing)
			switch x := spec.(type) {
			case *ast.ValueSpec:
				x.Comment = trailing
			case *ast.TypeSpec:
				x.Comment = trailing
			}
		}
		pos = append(pos, namePos)
		if kind == 2 {
			f.Decls = append(f.Decls, &ast.GenDecl{Doc: doc, TokPos: namePos - 4, Tok: tok, Specs: []ast.Spec{spec}})
		} else {
			gd.Specs = append(gd.Specs, spec)
		}
	}
	if kind != 2 {
		gd.Rparen = token.Pos(src.tf.Base() + len(src.text) - 2)
		f.Decls = []ast.Decl{gd}
	}
	return f, pos
}

// Verif_C12_AttributionDecls: k constants in a group (kind 0), k types in a
// group (kind 1) or k ungrouped variables on adjacent lines (kind 2), each
// symbolically without doc / with an attached // doc / with a detached comment
// / with an attached two-line block comment, with or without a trailing
// comment, single-line or spanning three lines (kinds 1, 2); the group
// symbolically with its own doc and with a comment behind its opening
// parenthesis. Doc is exactly the comment group directly above the
// declaration; the previous declaration's trailing comment, a detached
// comment, the group's doc or the comment behind the parenthesis are never
// reported; Comment of a single-line declaration is exactly its trailing comment.
func Verif_C12_AttributionDecls(kind, k int) {
	groupDoc, parenComment := false, false
	if kind != 2 {
		groupDoc, parenComment = verifsym.Bool(), verifsym.Bool()
	}
	decls := make([]vFieldLayout, k)
	for i := range decls {
		decls[i] = vFieldLayout{doc: verifsym.IntRange(0, 3), trailing: verifsym.Bool()}
		if kind != 0 {
			decls[i].multiline = verifsym.Bool()
		}
	}
	fset := token.NewFileSet()
	var file *ast.File
	var pos []token.Pos
	if verifsym.Symbolic() && !vRealParser {
		file, pos = vDeclAST(fset, kind, groupDoc, parenComment, decls)
	} else {
		var err error
		file, err = vParse(fset, "/src/p/p.go", vDeclSource(kind, groupDoc, parenComment, decls), parser.ParseComments)
		if err != nil {
			panic(err)
		}
		for _, d := range file.Decls {
			for _, sp := range d.(*ast.GenDecl).Specs {
				switch x := sp.(type) {
				case *ast.ValueSpec:
					pos = append(pos, x.Names[0].NamePos)
				case *ast.TypeSpec:
					pos = append(pos, x.Name.NamePos)
				}
			}
		}
	}
	p := vNewPkgFor(fset, file)
	for i, d := range decls {
		_, doc := p.Doc(pos[i])
		cm := p.Comment(pos[i])
		want := vWantDoc(i, d.doc)
		if want != nil {
			verifsym.Assert(vSameLines(doc, want), "Doc is not exactly the comment group directly above the declaration")
		} else {
			verifsym.Assert(len(doc) == 0, "a declaration without doc comment gets documentation (previous declaration's trailing comment, a detached comment, the group's doc or the comment behind the parenthesis)")
		}
		if !d.multiline {
			if d.trailing {
				verifsym.Assert(len(cm) == 1 && cm[0] == "t"+vNum(i), "Comment is not exactly the trailing comment on the declaration's line")
			} else {
				verifsym.Assert(len(cm) == 0, "a declaration without trailing comment gets one")
			}
		}
		verifsym.Observe("doc", doc)
		verifsym.Observe("comment", cm)
	}
	verifsym.Reach("end")
}
