package types

import (
	"go/ast"
	"go/parser"
	"go/token"
	"go/types"

	"golang.org/x/tools/go/packages"

	"github.com/octohelm/gengo/internal/verifsym"
)

// ---------------------------------------------------------------- C12 (attribution, declarations)

// vDeclSource renders k declarations of the given kind:
//
//	kind 0: const ( C0 = 0 ... )       one parenthesised group, docs on the specs
//	kind 1: type ( T0 int ... )        one parenthesised group
//	kind 2: var V0 = 0 / var V1 = 1    k ungrouped declarations on adjacent lines, docs on the GenDecls
func vDeclSource(kind int, groupDoc bool, decls []vFieldLayout) string {
	s := "package p\n\n"
	line := func(i int) string {
		switch kind {
		case 0:
			return "\tC" + vNum(i) + " = " + vNum(i)
		case 1:
			return "\tT" + vNum(i) + " int"
		}
		return "var V" + vNum(i) + " = " + vNum(i)
	}
	indent := "\t"
	if kind == 2 {
		indent = ""
	} else {
		if groupDoc {
			s += "// G doc\n"
		}
		if kind == 0 {
			s += "const (\n"
		} else {
			s += "type (\n"
		}
	}
	for i, d := range decls {
		switch d.doc {
		case 1:
			s += indent + "// d" + vNum(i) + "\n"
		case 2:
			s += indent + "// x" + vNum(i) + "\n\n"
		}
		s += line(i)
		if d.trailing {
			s += " // t" + vNum(i)
		}
		s += "\n"
	}
	if kind != 2 {
		s += ")\n"
	}
	return s
}

// vDeclAST builds the AST go/parser produces for vDeclSource (same line layout).
func vDeclAST(fset *token.FileSet, kind int, groupDoc bool, decls []vFieldLayout) (*ast.File, []token.Pos) {
	const width = 100
	nlines := 10 + 4*len(decls)
	tf := fset.AddFile("/src/p/p.go", -1, nlines*width)
	lines := make([]int, nlines)
	for i := range lines {
		lines[i] = i * width
	}
	tf.SetLines(lines)
	at := func(line, col int) token.Pos { return token.Pos(tf.Base() + (line-1)*width + col) }
	group := func(line, col int, text string) *ast.CommentGroup {
		return &ast.CommentGroup{List: []*ast.Comment{{Slash: at(line, col), Text: text}}}
	}
	f := &ast.File{Package: at(1, 0), Name: &ast.Ident{NamePos: at(1, 8), Name: "p"}, FileStart: token.Pos(tf.Base()), FileEnd: token.Pos(tf.Base() + nlines*width)}
	line := 3
	var pos []token.Pos
	tok := []token.Token{token.CONST, token.TYPE, token.VAR}[kind]
	col := 1
	if kind == 2 {
		col = 0
	}
	var gd *ast.GenDecl
	if kind != 2 {
		gd = &ast.GenDecl{Tok: tok}
		if groupDoc {
			gd.Doc = group(line, 0, "// G doc")
			f.Comments = append(f.Comments, gd.Doc)
			line++
		}
		gd.TokPos = at(line, 0)
		gd.Lparen = at(line, 6)
		line++
	}
	for i, d := range decls {
		var doc *ast.CommentGroup
		switch d.doc {
		case 1:
			doc = group(line, col, "// d"+vNum(i))
			f.Comments = append(f.Comments, doc)
			line++
		case 2:
			f.Comments = append(f.Comments, group(line, col, "// x"+vNum(i)))
			line += 2
		}
		var trailing *ast.CommentGroup
		var spec ast.Spec
		var namePos token.Pos
		switch kind {
		case 0:
			namePos = at(line, 1)
			if d.trailing {
				trailing = group(line, 8, "// t"+vNum(i))
			}
			spec = &ast.ValueSpec{Doc: doc, Names: []*ast.Ident{{NamePos: namePos, Name: "C" + vNum(i)}},
				Values: []ast.Expr{&ast.BasicLit{ValuePos: at(line, 6), Kind: token.INT, Value: vNum(i)}}, Comment: trailing}
		case 1:
			namePos = at(line, 1)
			if d.trailing {
				trailing = group(line, 8, "// t"+vNum(i))
			}
			spec = &ast.TypeSpec{Doc: doc, Name: &ast.Ident{NamePos: namePos, Name: "T" + vNum(i)},
				Type: &ast.Ident{NamePos: at(line, 4), Name: "int"}, Comment: trailing}
		case 2:
			namePos = at(line, 4)
			if d.trailing {
				trailing = group(line, 11, "// t"+vNum(i))
			}
			spec = &ast.ValueSpec{Names: []*ast.Ident{{NamePos: namePos, Name: "V" + vNum(i)}},
				Values: []ast.Expr{&ast.BasicLit{ValuePos: at(line, 9), Kind: token.INT, Value: vNum(i)}}, Comment: trailing}
		}
		if trailing != nil {
			f.Comments = append(f.Comments, trailing)
		}
		pos = append(pos, namePos)
		if kind == 2 {
			f.Decls = append(f.Decls, &ast.GenDecl{Doc: doc, TokPos: at(line, 0), Tok: tok, Specs: []ast.Spec{spec}})
		} else {
			gd.Specs = append(gd.Specs, spec)
		}
		line++
	}
	if kind != 2 {
		gd.Rparen = at(line, 0)
		f.Decls = []ast.Decl{gd}
	}
	return f, pos
}

// Verif_C12_AttributionDecls: k constants in a group (kind 0), k types in a
// group (kind 1) or k ungrouped variables on adjacent lines (kind 2), each
// symbolically without doc / with an attached doc comment / with a detached
// comment above, and with or without a trailing comment: Doc is exactly the
// comment group directly above the declaration, Comment exactly its trailing
// comment; the previous line's trailing comment, a detached comment or the
// group's own doc are never reported.
func Verif_C12_AttributionDecls(kind, k int) {
	groupDoc := verifsym.Bool()
	decls := make([]vFieldLayout, k)
	for i := range decls {
		decls[i] = vFieldLayout{doc: verifsym.IntRange(0, 2), trailing: verifsym.Bool()}
	}
	fset := token.NewFileSet()
	var file *ast.File
	var pos []token.Pos
	if verifsym.Symbolic() {
		file, pos = vDeclAST(fset, kind, groupDoc, decls)
	} else {
		var err error
		file, err = parser.ParseFile(fset, "/src/p/p.go", vDeclSource(kind, groupDoc, decls), parser.ParseComments)
		if err != nil {
			panic(err)
		}
		for _, d := range file.Decls {
			for _, sp := range d.(*ast.GenDecl).Specs {
				switch x := sp.(type) {
				case *ast.ValueSpec:
					pos = append(pos, x.Names[0].NamePos)
				case *ast.TypeSpec:
					pos = append(pos, x.Name.NamePos)
				}
			}
		}
	}
	tpkg := types.NewPackage("example.com/m/p", "p")
	pp := &packages.Package{PkgPath: tpkg.Path(), Name: "p", Types: tpkg, Fset: fset, Syntax: []*ast.File{file},
		TypesInfo: &types.Info{Defs: map[*ast.Ident]types.Object{}, Types: map[ast.Expr]types.TypeAndValue{}}}
	p := newPkg(pp, VerifNewUniverse(fset, map[string]Package{}, map[string]bool{}, nil, ""))
	for i, d := range decls {
		_, doc := p.Doc(pos[i])
		cm := p.Comment(pos[i])
		if d.doc == 1 {
			verifsym.Assert(len(doc) == 1 && doc[0] == "d"+vNum(i), "Doc is not exactly the comment group directly above the declaration")
		} else {
			verifsym.Assert(len(doc) == 0, "a declaration without doc comment gets documentation (previous line's trailing comment, a detached comment or the group's doc)")
		}
		if d.trailing {
			verifsym.Assert(len(cm) == 1 && cm[0] == "t"+vNum(i), "Comment is not exactly the trailing comment on the declaration's line")
		} else {
			verifsym.Assert(len(cm) == 0, "a declaration without trailing comment gets one")
		}
		verifsym.Observe("doc", doc)
		verifsym.Observe("comment", cm)
	}
	verifsym.Reach("end")
}
