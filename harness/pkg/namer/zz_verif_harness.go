package namer

import (
	gengotypes "github.com/octohelm/gengo/pkg/types"

	"github.com/octohelm/gengo/internal/verifsym"
)

// ---------------------------------------------------------------- C03

var vKeywords = [...]string{
	"break", "case", "chan", "const", "continue", "default", "defer", "else", "fallthrough", "for", "func", "go", "goto",
	"if", "import", "interface", "map", "package", "range", "return", "select", "struct", "switch", "type", "var",
}

func vIsIdent(s string) bool {
	if len(s) == 0 {
		return false
	}
	for i := 0; i < len(s); i++ {
		c := s[i]
		letter := (c >= 'a' && c <= 'z') || (c >= 'A' && c <= 'Z') || c == '_'
		digit := c >= '0' && c <= '9'
		if !(letter || (digit && i > 0)) {
			return false
		}
	}
	return true
}

func vIsKeyword(s string) bool {
	for _, k := range vKeywords {
		if s == k {
			return true
		}
	}
	return false
}

// vSegByte: a symbolic byte of an import-path segment, from the alphabet
// selected by alpha: 0 lower-case letters, 1 [a-z0-9], 2 [A-Za-z0-9._-].
func vSegByte(alpha int) byte {
	c := verifsym.Byte()
	lower := c >= 'a' && c <= 'z'
	switch alpha {
	case 0:
		verifsym.Assume(lower)
	case 1:
		verifsym.Assume(lower || (c >= '0' && c <= '9'))
	default:
		verifsym.Assume(lower || (c >= 'A' && c <= 'Z') || (c >= '0' && c <= '9') || c == '.' || c == '_' || c == '-')
	}
	return c
}

func vSeg(n, alpha int) string {
	b := make([]byte, n)
	for i := range b {
		b[i] = vSegByte(alpha)
	}
	return string(b)
}

// vPath builds "seg/seg/..." with the given segment lengths (decimal digits of
// shape, most significant first; e.g. 21 = a 2-byte segment then a 1-byte one).
func vPath(shape, alpha int) string {
	var lens []int
	for shape > 0 {
		lens = append([]int{shape % 10}, lens...)
		shape /= 10
	}
	p := ""
	for i, n := range lens {
		if i > 0 {
			p += "/"
		}
		p += vSeg(n, alpha)
	}
	return p
}

// Verif_C03_NameValid: the local name the tracker derives for an import path
// whose segments are symbolic ([A-Za-z0-9._-]) is a valid, non-keyword Go
// identifier, for every candidate depth n the tracker may use.
func Verif_C03_NameValid(shape, alpha int) {
	p := vPath(shape, alpha)
	tr := NewDefaultImportTracker()
	panicked := verifsym.Panics(func() {
		tr.AddType(gengotypes.Ref(p, "T"))
	})
	verifsym.Assert(!panicked, "AddType panics")
	name := tr.LocalNameOf(p)
	verifsym.Assert(name != "", "referenced package got no local name")
	if name != "" {
		verifsym.Assert(vIsIdent(name), "local name is not a valid Go identifier")
		verifsym.Assert(!vIsKeyword(name), "local name is a Go keyword")
	}
	verifsym.Observe("name", name)
	verifsym.Reach("end")
}

// vCheckTracker asserts the representation invariant of the public view.
func vCheckTracker(tr ImportTracker, added []string) {
	imports := tr.Imports()
	for _, p := range added {
		n := tr.LocalNameOf(p)
		verifsym.Assert(n != "", "an added package has no local name")
		if n == "" {
			continue
		}
		back, ok := tr.PathOf(n)
		verifsym.Assert(ok && back == p, "name -> path is not the inverse of path -> name")
		verifsym.Assert(imports[p] == n, "Imports() disagrees with LocalNameOf")
		for _, q := range added {
			if q != p {
				verifsym.Assert(tr.LocalNameOf(q) != n, "two packages share one local name")
			}
		}
	}
	// nothing but the added paths is imported
	count := 0
	for range imports {
		count++
	}
	distinct := 0
	for i, p := range added {
		dup := false
		for j := 0; j < i; j++ {
			if added[j] == p {
				dup = true
			}
		}
		if !dup {
			distinct++
		}
	}
	verifsym.Assert(count == distinct, "Imports() does not hold exactly the referenced packages")
}

// Verif_C03_History: a history of AddType calls on a fresh tracker with
// symbolic lower-case paths of the given shapes (0 = no call). After every call:
// maps mutually inverse and injective, earlier bindings unchanged, re-adding is
// a no-op, std names only for their std path.
func Verif_C03_History(s1, s2, s3 int) {
	tr := NewDefaultImportTracker()
	var added []string
	var names []string
	for _, shape := range []int{s1, s2, s3} {
		if shape == 0 {
			continue
		}
		p := vPath(shape, 0)
		tr.AddType(gengotypes.Ref(p, "T"))
		// earlier bindings unchanged
		for i, q := range added {
			verifsym.Assert(tr.LocalNameOf(q) == names[i], "an earlier binding changed")
		}
		known := false
		for _, q := range added {
			if q == p {
				known = true
			}
		}
		if !known {
			added = append(added, p)
			names = append(names, tr.LocalNameOf(p))
		}
		vCheckTracker(tr, added)
		// idempotent
		before := tr.LocalNameOf(p)
		tr.AddType(gengotypes.Ref(p, "U"))
		verifsym.Assert(tr.LocalNameOf(p) == before, "asking twice for the same package changed its name")
		vCheckTracker(tr, added)
		// a std-reserved name is bound only to its std path
		if sp, ok := std.nameToPath[before]; ok {
			verifsym.Assert(sp == p, "a name reserved for a std package was given to another path")
		}
	}
	verifsym.Observe("names", names)
	verifsym.Reach("end")
}

// Verif_C03_RawNamer: rawNamer over the real tracker. self, p1, p2 are symbolic
// lower-case paths (they may coincide). A reference to the file's own package
// is unqualified and registers nothing; a foreign one is qualified with the
// registered local name and its package is imported; asking again gives the
// same text; afterwards Imports() holds exactly the foreign packages referenced.
func Verif_C03_RawNamer(sSelf, s1, s2 int) {
	self := vPath(sSelf, 0)
	p1 := vPath(s1, 0)
	p2 := vPath(s2, 0)
	tr := NewDefaultImportTracker()
	nm := NewRawNamer(self, tr)

	var foreign []string
	check := func(p, name string) {
		r := gengotypes.Ref(p, name)
		out := nm.Name(r)
		if p == self {
			verifsym.Assert(out == name, "reference to the file's own package is qualified")
		} else {
			verifsym.Assert(out == tr.LocalNameOf(p)+"."+name, "qualified reference does not use the registered local name")
			_, imported := tr.Imports()[p]
			verifsym.Assert(imported, "referenced package is not imported")
			dup := false
			for _, q := range foreign {
				if q == p {
					dup = true
				}
			}
			if !dup {
				foreign = append(foreign, p)
			}
		}
		verifsym.Assert(nm.Name(r) == out, "asking twice for the same type gives different text")
		verifsym.Assert(nm.Name(gengotypes.Ref(p, name)) == out, "an equal reference renders differently")
	}
	check(p1, "A")
	check(p2, "B")
	check(p1, "C")
	n := 0
	for p := range tr.Imports() {
		verifsym.Assert(p != self, "the file's own package is imported")
		n++
	}
	verifsym.Assert(n == len(foreign), "Imports() is not exactly the set of referenced foreign packages")
	verifsym.Reach("end")
}

// Verif_C15_NamerRewrite: a generic reference whose argument list mentions a
// foreign package q (twice), the file's own package and a nested instantiation
// is rewritten by the naming system: every package path becomes that package's
// import name, the own package disappears, exactly p and q are registered, and
// nothing else changes.
func Verif_C15_NamerRewrite(sSelf, sp, sq int) {
	self := vPath(sSelf, 0)
	p := vPath(sp, 0)
	q := vPath(sq, 0)
	verifsym.Assume(p != self)
	verifsym.Assume(q != self)
	tr := NewDefaultImportTracker()
	nm := NewRawNamer(self, tr)
	name := "M[" + q + ".X,L[" + self + ".Y," + q + ".Z],int]"
	out := ""
	panicked := verifsym.Panics(func() {
		out = nm.Name(gengotypes.Ref(p, name))
	})
	verifsym.Assert(!panicked, "rendering a generic reference panics")
	if panicked {
		return
	}
	lp, lq := tr.LocalNameOf(p), tr.LocalNameOf(q)
	verifsym.Assert(out == lp+".M["+lq+".X,L[Y,"+lq+".Z],int]", "nested package paths are not rewritten to import names")
	n := 0
	for k := range tr.Imports() {
		verifsym.Assert(k == p || k == q, "a package that is not referenced was registered")
		n++
	}
	want := 2
	if p == q {
		want = 1
	}
	verifsym.Assert(n == want, "not exactly the referenced packages are registered")
	// asking again - with an equal but distinct reference, and with a different
	// generic type that has the same argument list - renders the same qualifiers
	// and registers nothing new
	again := nm.Name(gengotypes.Ref(p, name))
	verifsym.Assert(again == out, "rendering an equal generic reference a second time gives different text")
	other := nm.Name(gengotypes.Ref(q, name))
	verifsym.Assert(other == lq+".M["+lq+".X,L[Y,"+lq+".Z],int]", "a second generic reference with the same arguments is rewritten differently")
	n2 := 0
	for range tr.Imports() {
		n2++
	}
	verifsym.Assert(n2 == want, "rendering the same generic reference again registered another package")
	// a generic type of the file's OWN package instantiated with a foreign argument:
	// unqualified itself, but its argument is rewritten and imported like any other
	tr2 := NewDefaultImportTracker()
	nm2 := NewRawNamer(self, tr2)
	own := nm2.Name(gengotypes.Ref(self, "N["+q+".X,"+self+".Y]"))
	verifsym.Assert(own == "N["+tr2.LocalNameOf(q)+".X,Y]", "type arguments of an own-package generic are not rewritten to import names")
	_, imported := tr2.Imports()[q]
	verifsym.Assert(imported, "a package referenced only as a type argument of an own-package generic is not imported")
	verifsym.Assert(tr2.LocalNameOf(q) != "", "a package referenced only as a type argument has no local name")
	// the same qualified type more than once in one argument list (and the file's own type twice)
	tr3 := NewDefaultImportTracker()
	nm3 := NewRawNamer(self, tr3)
	twice := nm3.Name(gengotypes.Ref(p, "P["+q+".X,"+q+".X,L["+q+".X],"+self+".Y,"+self+".Y]"))
	l3 := tr3.LocalNameOf(q)
	verifsym.Assert(twice == tr3.LocalNameOf(p)+".P["+l3+".X,"+l3+".X,L["+l3+".X],Y,Y]", "a type that occurs more than once in the argument list is not rewritten at every occurrence")
	verifsym.Observe("out", out)
	verifsym.Reach("end")
}

// Verif_C03_ManyClash: n packages "a/x<S>", "b/x<S>", ... that all end in the
// same symbolic segment S (slen lower-case bytes, e.g. spelling a keyword, a
// std name, "apis", "domain" or "v10"), followed by the single-segment path S
// itself and by a last path with a symbolic one-byte prefix: the tracker
// invariant holds after every call and every added path gets a distinct valid
// non-keyword name (numbered fallbacks included).
func Verif_C03_ManyClash(n, slen int) {
	seg := vSeg(slen, 0)
	tr := NewDefaultImportTracker()
	var added []string
	add := func(p string) {
		tr.AddType(gengotypes.Ref(p, "T"))
		dup := false
		for _, q := range added {
			if q == p {
				dup = true
			}
		}
		if !dup {
			added = append(added, p)
		}
	}
	for i := 0; i < n; i++ {
		add(string([]byte{'a' + byte(i)}) + "/" + seg)
	}
	add(seg)
	add(vSeg(1, 0) + "/" + seg)
	vCheckTracker(tr, added)
	for _, p := range added {
		name := tr.LocalNameOf(p)
		verifsym.Assert(vIsIdent(name) && !vIsKeyword(name), "a package has no valid non-keyword local name")
	}
	verifsym.Reach("end")
}

// Verif_C03_ManyFallback: n single-segment paths that differ only in
// punctuation around the same symbolic segment S (slen lower-case bytes), so
// that every candidate name is taken after the first and the numbered fallback
// has to hand out S2, S3, ... beyond S9: every path gets a distinct valid
// non-keyword name and the tracker invariant holds.
func Verif_C03_ManyFallback(n, slen int) {
	seg := vSeg(slen, 0)
	variants := []string{seg, seg + "-", seg + ".", "-" + seg, seg + "--", "." + seg, seg + "-.", "--" + seg, seg + "..", "-." + seg, seg + ".-", ".-" + seg, seg + "---"}
	verifsym.Assume(n <= len(variants))
	tr := NewDefaultImportTracker()
	var added []string
	for _, p := range variants[:n] {
		tr.AddType(gengotypes.Ref(p, "T"))
		added = append(added, p)
	}
	vCheckTracker(tr, added)
	for _, p := range added {
		name := tr.LocalNameOf(p)
		verifsym.Assert(vIsIdent(name) && !vIsKeyword(name), "a package has no valid non-keyword local name")
	}
	verifsym.Observe("last", tr.LocalNameOf(added[len(added)-1]))
	verifsym.Reach("end")
}
