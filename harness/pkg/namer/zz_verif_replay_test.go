package namer

import (
	"testing"

	"github.com/octohelm/gengo/internal/verifsym"
)

func TestVerifReplay(t *testing.T) {
	verifsym.RunReplay(t, map[string]any{
		"Verif_C03_NameValid":    Verif_C03_NameValid,
		"Verif_C03_ManyFallback": Verif_C03_ManyFallback,
		"Verif_C03_ManyClash":    Verif_C03_ManyClash,
		"Verif_C03_History":      Verif_C03_History,
		"Verif_C03_RawNamer":     Verif_C03_RawNamer,
		"Verif_C15_NamerRewrite": Verif_C15_NamerRewrite,
	})
}
